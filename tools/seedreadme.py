"""development tool: fold the results of tools/seedsweep.sh (/tmp/seedchk/sweep.tsv) into seeded/<id>/meta.json and
regenerate seeded/README.md"""
import csv, json, sys
from pathlib import Path

ROOT = Path(__file__).resolve().parent.parent / "seeded"
sweep = {}
p = Path("/tmp/seedchk/sweep.tsv")
if p.exists():
    for row in csv.reader(p.open(), delimiter="\t"):
        if len(row) >= 6:
            sweep[row[0]] = row
NOTES = json.loads((ROOT / "notes.json").read_text()) if (ROOT / "notes.json").exists() else {}
rows = []
for d in sorted(x for x in ROOT.iterdir() if x.is_dir() and (x / "meta.json").exists()):
    m = json.loads((d / "meta.json").read_text())
    r = sweep.get(d.name)
    if r:
        m["confirmed_on_current_tree"] = {
            "applies_to": "current /repo HEAD (hooks + fix: commits)", "existing_suite_with_change": r[2],
            "demo_without_change_exit": int(r[1].split()[-1]) if r[1].startswith("exit") else r[1],
            "demo_with_change_exit": int(r[3].split()[-1]) if r[3].startswith("exit") else r[3],
            "how": "tools/seedsweep.sh -> tools/seedtest.sh in a scratch worktree under /tmp/seedchk (removed afterwards)"}
        m["caught_by_check"] = m["property"]
        m["check_exit_with_change"] = int(r[4].split()[-1]) if r[4].startswith("check exit") else r[4]
        m["first_verdict"] = r[5].split("clause=")[-1] if "clause=" in r[5] else r[5]
    if d.name in NOTES:
        m["note"] = NOTES[d.name]
    (d / "meta.json").write_text(json.dumps(m, indent=1))
    rows.append((d.name, m))
out = ["# Seeded changes (independent sub-agents; each breaks one property while the 273 tests still pass)", "",
       "Every change was confirmed with `tools/seedtest.sh` in a scratch worktree of the current tree (applies, existing suite still "
       "passes, the agent's demonstration fails with the change and passes without it) and the quick check was run against that "
       "worktree (never against /repo). Variants a, b: round 1; c, d (C12: d, e): round 2, from agents that were told what round 1 "
       "had tried and asked for changes that only show through unusual but legitimate use; e, f, g (C12: f, g, h): round 3; the next two letters: round 4 (C18e, C18f were re-made on top of the F17/F18 repair); the next two (C12: three): round 5; then one per round: round 6, round 7 (eight properties). "
       "`tools/seedsweep.sh` re-runs all of them against the committed tree; the last two columns are from its latest run.", "",
       "| change | what it is | how it was caught / what had to be strengthened | check exit | first verdict |", "|---|---|---|---|---|"]
for name, m in rows:
    out.append(f"| {name} | {(m.get('summary') or '')[:150].replace('|', '/')} | {(m.get('note') or '').replace('|', '/')} | "
               f"{m.get('check_exit_with_change', '')} | {(m.get('first_verdict') or '')[:90].replace('|', '/')} |")
(ROOT / "README.md").write_text("\n".join(out) + "\n")
print(len(rows), "changes;", sum(1 for _, m in rows if m.get("check_exit_with_change") == 1), "caught (exit 1)")
