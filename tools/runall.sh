#!/bin/bash
# tools/runall.sh [quick|thorough]  - run every registered check in sequence, print one line each
TIER=${1:-quick}
cd "$(dirname "$0")/.."
for p in C01 C02 C03 C04 C05 C06 C07 C08 C09 C10 C11 C12 C13 C14 C15 C16 C17 C18 C19 C20; do
  s=$(date +%s)
  out=$(./check $p --tier $TIER 2>&1); rc=$?
  echo "$p rc=$rc $(( $(date +%s) - s ))s $(echo "$out" | grep -E 'VIOLATION|MACHINERY' | head -2 | tr '\n' ' ' | cut -c1-200) $(echo "$out" | grep -c KNOWN-FINDING) known"
done
