"""Self-test of the binding (development tool; writes /verif/SELFTEST.md).
 1. an accepted trace with ONE logged field corrupted must be rejected by conformance at that line;
 2. a trace with a hook's events removed must fail as machinery (lost hooks), not pass vacuously;
 3. the bounded model with each deviation switch set back to the defective behaviour must violate the matching property."""
from __future__ import annotations

import json
import sys
from pathlib import Path

sys.path.insert(0, str(Path(__file__).resolve().parent.parent))

from hv import core, mcworlds  # noqa: E402
from hv.common import Ctx, MachineryError  # noqa: E402


def index_flag(ctx) -> str:
    """HiveIndex with the repair of F19 switched off must violate IndexExact"""
    from hv import tlc
    from hv.checks import c08

    ids = {"veh": ["v1"], "req": ["r1"], "st": ["s1"], "bs": ["b1"]}
    name = c08.write_mc(ctx, "MC_index_selftest", ids, cells=3)
    cfg = ctx.work / "MC_index_selftest.cfg"
    cfg.write_text(c08.index_cfg(ids, export=False, flags={"FixReAdd": False}))
    res = tlc.run_tlc(name, str(cfg), ctx.work, name=name, workers=1, timeout=600)
    tlc.require_ok(res, allow_violations=True)
    good = "IndexExact" in res.violated
    return (f"4. HiveIndex with FixReAdd=FALSE: TLC reports {res.violated} after {res.distinct} states "
            f"({'as intended' if good else 'NOT DETECTED'})")


def main() -> int:
    ctx = Ctx("SELFTEST", "quick", 0)
    out = ["# SELFTEST - the specification is bound to the code", ""]
    files = core.produce(ctx, [{"id": f"adv{k}", "kind": "adv", "seed": 9000 + k, "steps": 40, "with_route": False} for k in range(4)])
    tv = core.validate(ctx, files, {"C02", "C07", "C09", "C17"})
    out.append(f"baseline: {tv.lines} events of 4 adversarial runs, violations={len(tv.viol)}, divergences={len(tv.divg)}")
    assert not tv.viol and not tv.divg
    # 1. corrupt one field: a plug counter in the delta of some applied instruction / update
    src = files[0]
    lines = src.read_text().splitlines()
    done = None
    for k, text in enumerate(lines):
        e = json.loads(text)
        if e["ev"] in ("instr", "update") and e["d"]["st"]:
            sid, rec = e["d"]["st"][0]
            plug, pl = rec["pl"][0]
            pl["av"] = pl["av"] + 1 if pl["av"] < pl["tot"] else pl["av"] - 1
            lines[k] = json.dumps(e, separators=(",", ":"))
            done = (k + 1, e["ev"], sid, plug)
            break
    bad = ctx.work / "corrupted.ndjson"
    bad.write_text("\n".join(lines) + "\n")
    tv2 = core.validate(ctx, [bad], {"C02"})
    hit = [d for d in tv2.divg if d["line"] == done[0]]
    out.append(f"1. corrupted `av` of plug {done[3]} at station {done[2]} in the `{done[1]}` event on line {done[0]}: "
               f"conformance reports {len(tv2.divg)} divergence(s), {len(hit)} at that line "
               f"({hit[0]['p']}/{hit[0]['c']} witness {hit[0]['w']}); the C02 monitor reports {[v['c'] for v in tv2.viol]}")
    assert hit
    # 2. remove the vehicle_update hook's events
    nohook = ctx.work / "nohook.ndjson"
    nohook.write_text("\n".join(t for t in src.read_text().splitlines() if '"ev":"update"' not in t) + "\n")
    try:
        core.validate(ctx, [nohook], {"C02"})
        out.append("2. FAILED: a trace without update events was accepted")
        ok2 = False
    except MachineryError as ex:
        out.append(f"2. trace with every `update` event removed: machinery failure as intended ({str(ex)[:120]}...)")
        ok2 = True
    # 3. deviation switches
    mcworlds.ensure_modules()
    expect = {"FixOOS": ("MC_core_quick", dict(max_e=2, max_t=3), "Inv_C17"), "FixCB": ("MC_core_quick", dict(max_e=2, max_t=3), "Inv_C07"),
              "FixQueuePlug": ("MC_core_quick", dict(max_e=2, max_t=3), "Inv_C02"),
              "FixFull": ("MC_station", dict(max_e=2, max_t=4, kinds=["Idle", "OutOfService", "Reposition", "DispatchStation", "ChargeStation"]), "Prop_C18"),
              "FixFifo": ("MC_station", dict(max_e=2, max_t=4, kinds=["Idle", "OutOfService", "Reposition", "DispatchStation", "ChargeStation"]), "Prop_C18")}
    ok3 = True
    for flag, (mod, kw, prop) in expect.items():
        inv = [prop] if prop.startswith("Inv") else []
        pr = [prop] if prop.startswith("Prop") else []
        # F14 (a full vehicle blocks the queue and is passed) is a C18 violation on the tree as it was when it was found:
        # with the later first-come-first-served guard (FixFifo) in place the same defect starves the queue instead,
        # which C18 - a safety statement - does not speak about.  So FixFull is switched off together with FixFifo.
        flags = {flag: False, "FixFifo": False} if flag == "FixFull" else {flag: False}
        res = core.run_model(ctx, mod, f"{mod}-{flag}", core.model_cfg(mod, invariants=["TypeOK"] + inv, properties=pr, flags=flags, **kw))
        good = prop in res.violated
        ok3 = ok3 and good
        label = ", ".join(f"{k}=FALSE" for k in flags)
        out.append(f"3. {mod} with {label}: TLC reports {res.violated} after {res.distinct} states ({'as intended' if good else 'NOT DETECTED'})")
    out.append(index_flag(ctx))
    ok3 = ok3 and "as intended" in out[-1]
    Path(__file__).resolve().parent.parent.joinpath("SELFTEST.md").write_text("\n".join(out) + "\n")
    print("\n".join(out))
    import shutil

    shutil.rmtree(ctx.work, ignore_errors=True)
    return 0 if (ok2 and ok3) else 1


if __name__ == "__main__":
    sys.exit(main())
