#!/bin/bash
# tools/benigntest.sh <patch-dir> <name> <check-ids...>   (development tool)
# Applies a property-PRESERVING change (patch.diff) in a scratch worktree of /repo HEAD, confirms the existing suite still
# passes, and runs the named quick checks of a snapshot of the committed /verif against it: every one must stay quiet
# (exit 0, no VIOLATION line).  One line per check in /tmp/seedchk/benign.tsv
set -u
DIR=$1; NAME=$2; shift 2; CHECKS=$@
WT=/tmp/seedchk/ben-$NAME
SNAP=/tmp/seedchk/verif-ben-$NAME
rm -rf $WT $SNAP; mkdir -p /tmp/seedchk
git -C /repo worktree prune
git -C /repo worktree add --detach $WT HEAD >/dev/null 2>&1 || { echo "worktree failed"; exit 2; }
mkdir -p $SNAP && git -C /verif archive HEAD | tar -x -C $SNAP
cd $WT
git apply $DIR/patch.diff 2>/dev/null || git apply -3 $DIR/patch.diff >/dev/null 2>&1 || { echo "$NAME PATCH DOES NOT APPLY"; git -C /repo worktree remove --force $WT; exit 3; }
T=$(/venv/bin/python -W ignore -m pytest -q -p no:cacheprovider --timeout=900 2>&1 | tail -1 | cut -c1-40)
for c in $CHECKS; do
  out=$(cd $SNAP && HIVE_REPO=$WT ./check $c --tier quick 2>&1); rc=$?
  v=$(echo "$out" | grep -m1 -E "VIOLATION|MACHINERY" | cut -c1-220)
  nd=$(echo "$out" | grep -c DIVERGENCE)
  printf "%s\t%s\t%s\trc=%s\tdiv=%s\t%s\n" "$NAME" "$T" "$c" "$rc" "$nd" "$v" >> /tmp/seedchk/benign.tsv
done
cd /; git -C /repo worktree remove --force $WT; rm -rf $SNAP
