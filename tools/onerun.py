"""development helper: produce ONE run item and validate it for one property; keeps the trace.
usage: PYTHONPATH=/verif:/repo NREL_HIVE_VERIF=1 python tools/onerun.py <prop> '<item json>' [outdir]"""
import json, sys, shutil
from pathlib import Path
from hv.common import Ctx
from hv import core

prop, item = sys.argv[1], json.loads(sys.argv[2])
out = Path(sys.argv[3] if len(sys.argv) > 3 else "/tmp/dbg")
ctx = Ctx(prop, "quick", 0)
files = core.produce(ctx, [item])
tv = core.validate(ctx, files, {prop})
for f in files:
    shutil.copy(f, out / Path(f).name)
print("lines", tv.lines, "viol", json.dumps(tv.viol)[:2000])
print("divg", json.dumps(tv.divg)[:1500])
print("kept", [str(out / Path(f).name) for f in files])
