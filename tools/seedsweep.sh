#!/bin/bash
# tools/seedsweep.sh [ids...]   (development tool) - runs tools/seedtest.sh for every change kept under seeded/ (or the ones
# named) against the COMMITTED /verif (git archive HEAD) and a scratch worktree of /repo HEAD, 3 at a time; one summary
# line per change in /tmp/seedchk/sweep.tsv:  id  demo-without  tests  demo-with  check-exit  first-verdict
cd "$(dirname "$0")/.."
mkdir -p /tmp/seedchk/logs
IDS=${@:-$(ls seeded | grep -E '^C[0-9]+[a-z]$')}
: > /tmp/seedchk/sweep.tsv
printf '%s\n' $IDS | xargs -P 3 -I{} bash -c '
  x={}; id=${x:0:3}
  tools/seedtest.sh $id /verif/seeded/$x > /tmp/seedchk/logs/sweep-$x.log 2>&1
  f=/tmp/seedchk/logs/sweep-$x.log
  d0=$(grep -A1 "demo without" $f | tail -1); t=$(grep -A1 "tests with" $f | tail -1 | cut -c1-40); d1=$(grep -A1 "demo with change" $f | tail -1)
  ce=$(grep "check exit" $f | tail -1); v=$(grep -m1 -E "VIOLATION|MACHINERY|DOES NOT APPLY" $f | cut -c1-160)
  printf "%s\t%s\t%s\t%s\t%s\t%s\n" "$x" "$d0" "$t" "$d1" "$ce" "$v" >> /tmp/seedchk/sweep.tsv'
sort /tmp/seedchk/sweep.tsv
