#!/bin/bash
# tools/seedtest.sh <Cnn> <variant-dir> [check-ids...]   (development tool, not a registered check)
# Confirms a seeded change in a scratch worktree of /repo HEAD (applies; existing suite still passes; demo fails with the
# change and passes without it) and runs the quick checks of a SNAPSHOT of /verif against that worktree (HIVE_REPO), so
# /repo itself is never touched and development can go on meanwhile.
set -u
ID=$1; DIR=$2; shift 2; CHECKS=${@:-$ID}
NAME=$(basename $DIR)
WT=/tmp/seedchk/$ID-$NAME
SNAP=/tmp/seedchk/verif-$ID-$NAME
rm -rf $WT $SNAP; mkdir -p /tmp/seedchk
git -C /repo worktree prune
git -C /repo worktree add --detach $WT HEAD >/dev/null 2>&1 || { echo "worktree failed"; exit 2; }
mkdir -p $SNAP && git -C /verif archive HEAD | tar -x -C $SNAP
cd $WT
echo "== demo without change:"; PYTHONPATH=$WT /venv/bin/python -W ignore $DIR/demo.py >/tmp/seedchk/$ID-$NAME.demo0.log 2>&1; echo "exit $?"
if git apply --check $DIR/patch.diff 2>/dev/null; then git apply $DIR/patch.diff; else git apply -3 $DIR/patch.diff >/dev/null 2>&1 || { echo "PATCH DOES NOT APPLY"; git -C /repo worktree remove --force $WT; exit 3; }; fi
git diff HEAD > /tmp/seedchk/$ID-$NAME.rebased.diff
echo "== tests with change:"; /venv/bin/python -W ignore -m pytest -q -p no:cacheprovider --timeout=900 2>&1 | tail -1
echo "== demo with change:"; PYTHONPATH=$WT /venv/bin/python -W ignore $DIR/demo.py >/tmp/seedchk/$ID-$NAME.demo1.log 2>&1; echo "exit $?"
for c in $CHECKS; do
  echo "== check $c with change:"; (cd $SNAP && HIVE_REPO=$WT ./check $c --tier quick 2>&1 | grep -E "VIOLATION|KNOWN|DIVERGENCE|MACHINERY|done:" | cut -c1-300 | head -8; echo "check exit ${PIPESTATUS[0]}")
done
cd /; git -C /repo worktree remove --force $WT; rm -rf $SNAP
