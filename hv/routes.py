"""Records of calls of the real router for HiveRoute.tla (C13, C14): networks, position pairs by class, certificates."""
from __future__ import annotations

import json
import math
import random
from pathlib import Path
from typing import Any, Dict, List, Optional, Tuple

from hv import world


def load_osm(path: Path):
    import logging

    logging.disable(logging.CRITICAL)
    import networkx as nx

    from nrel.hive.model.roadnetwork.osm.osm_roadnetwork import OSMRoadNetwork

    data = json.loads(Path(path).read_text())
    try:
        g = nx.node_link_graph(data, edges="links")
    except TypeError:
        g = nx.node_link_graph(data)
    ref = copy_graph(g)
    return OSMRoadNetwork(g), ref


def copy_graph(g):
    """the INPUT graph as data, taken before the network object is built from it: the reference the routes are judged
    against must not depend on what the implementation stores or rewrites"""
    import networkx as nx

    c = nx.MultiDiGraph()
    for n, d in g.nodes(data=True):
        c.add_node(n, **dict(d))
    for u, v, k, d in g.edges(keys=True, data=True):
        c.add_edge(u, v, key=k, **dict(d))
    return c


def gen_graph(rng: random.Random, n_nodes: int, first_id: int = 1, origin=None, speeds=None):
    """a strongly connected street graph: jittered grid nodes, a one-way ring, two-way and one-way chords, link lengths a
    bit longer than the crow flies, speeds varying by a factor of ten"""
    import networkx as nx

    side = max(2, int(math.ceil(math.sqrt(n_nodes))))
    g = nx.MultiDiGraph()
    pts = []
    for k in range(n_nodes):
        i, j = k % side, k // side
        x, y = 160.0 * i + rng.uniform(-40, 40), 150.0 * j + rng.uniform(-40, 40)
        if origin:
            # the same town somewhere else on the globe (another latitude: a degree of longitude is another length there)
            lat = origin[0] + y / 111_320.0
            lon = origin[1] + x / (111_320.0 * math.cos(math.radians(origin[0])))
        else:
            lat, lon = world.at(x, y)
        pts.append((x, y))
        g.add_node(k + first_id, x=lon, y=lat)

    def add(u, v):
        if u == v or g.has_edge(u, v):
            return
        (x1, y1), (x2, y2) = pts[u - first_id], pts[v - first_id]
        length = math.hypot(x2 - x1, y2 - y1) * rng.uniform(1.0, 1.3) + 1.0
        g.add_edge(u, v, length=length, speed_kmph=rng.choice(speeds or [5.0, 8.0, 15.0, 25.0, 40.0, 60.0]))

    ids = list(range(first_id, n_nodes + first_id))      # junction numbers start at 1, or at 0 (re-indexed graphs)
    order = list(ids)
    rng.shuffle(order)
    for a, b in zip(order, order[1:] + order[:1]):
        add(a, b)                      # one-way ring: strong connectivity
    for _ in range(n_nodes * 2):
        u = rng.choice(ids)
        # prefer near neighbours
        cand = sorted(ids, key=lambda w: math.hypot(pts[w - first_id][0] - pts[u - first_id][0], pts[w - first_id][1] - pts[u - first_id][1]))[1:5]
        v = rng.choice(cand)
        add(u, v)
        if rng.random() < 0.6:
            add(v, u)                  # two-way street
    return g


def add_parallel_links(g, rng: random.Random, n: int) -> None:
    """a second, slower link between junctions that already have a direct one (a loop road next to the street): hive
    names links by their end junctions, the direct (first) link is the one its link table describes"""
    pairs = sorted({(u, v) for u, v in g.edges()})
    for (u, v) in rng.sample(pairs, min(n, len(pairs))):
        d = g.get_edge_data(u, v)[0]
        g.add_edge(u, v, length=float(d["length"]) * rng.uniform(1.5, 3.0), speed_kmph=float(d["speed_kmph"]) * rng.choice([0.3, 0.5, 1.0]))


def gen_dogleg_graph(rng: random.Random, scale_km: float):
    """near ties: a straight street A->B at 99 km/h against the dog-leg A->C->B over two links at 100 km/h (the top
    speed) that is faster by a few ten-thousandths only; X->A and B->Y carry the end points, slow links close the ring.
    All link lengths exceed the straight-line distance of their junctions (no estimate from geometry and top speed can
    exceed a true travel time)."""
    import networkx as nx
    import h3

    g = nx.MultiDiGraph()
    gkm = scale_km
    xy = {"X": (-2000.0, 0.0), "A": (0.0, 0.0), "C": (1500.0 * gkm, 60.0 * gkm), "B": (2500.0 * gkm, 0.0), "Y": (2500.0 * gkm + 2000.0, 0.0)}
    ids = {"X": 1, "A": 2, "C": 3, "B": 4, "Y": 5}
    cell = {}
    for nme, (x, y) in xy.items():
        lat, lon = world.at(x, y)
        g.add_node(ids[nme], x=lon, y=lat)
        cell[nme] = h3.geo_to_h3(lat, lon, 15)

    def crow_m(a, b):
        return h3.point_dist(h3.h3_to_geo(cell[a]), h3.h3_to_geo(cell[b]), unit="m")

    vmax = 100.0
    l_cb = crow_m("C", "B") + 3.0
    l_ac = crow_m("A", "C") * 1.02 + 3.0
    t_dog = (l_ac + l_cb) / vmax                      # in (metres per km/h): only ratios matter below
    # the direct street is slower than the dog-leg by `eps` of the last leg's time
    eps = rng.choice([0.0003, 0.0005, 0.0007])
    l_ab = 99.0 * (t_dog + eps * crow_m("C", "B") / vmax)
    if l_ab < crow_m("A", "B") + 1.0:
        l_ab = crow_m("A", "B") + 1.0                 # geometry wins: then there is simply no near tie in this graph
    for (a, b, length, v) in (("X", "A", crow_m("X", "A") * 1.1, 50.0), ("A", "C", l_ac, vmax), ("C", "B", l_cb, vmax),
                              ("A", "B", l_ab, 99.0), ("B", "Y", crow_m("B", "Y") * 1.1, 50.0),
                              ("Y", "X", crow_m("Y", "X") * 1.3, 30.0), ("B", "A", crow_m("A", "B") * 1.2, 40.0),
                              ("C", "A", crow_m("A", "C") * 1.2, 40.0)):
        g.add_edge(ids[a], ids[b], length=length, speed_kmph=v)
    return g


def split_junction(g, rng: random.Random) -> None:
    """a junction drawn as two nodes a few metres apart (a median crossing): everything that leaves the junction leaves
    from the second node, so every path through it crosses the very short connector"""
    u = rng.choice(sorted(g.nodes()))
    new = max(g.nodes()) + 1
    d = g.nodes[u]
    g.add_node(new, x=d["x"] + 4.0 / 85000.0, y=d["y"])           # about 4 m east
    for _, w, k, attrs in list(g.out_edges(u, keys=True, data=True)):
        g.remove_edge(u, w, key=k)
        g.add_edge(new, w, **dict(attrs))
    g.add_edge(u, new, length=4.0, speed_kmph=15.0)
    g.add_edge(new, u, length=4.0, speed_kmph=15.0)


def drop_speed_tags(g, rng: random.Random, share: float) -> None:
    """some links carry no speed (as in raw OSM extracts): the scenario's network.default_speed_kmph applies to them"""
    for u, v, k, d in list(g.edges(keys=True, data=True)):
        if rng.random() < share:
            d.pop("speed_kmph", None)


def osm_from_graph(g, h3res: int = 15, default_speed: float = 40.0):
    import logging

    logging.disable(logging.CRITICAL)
    from nrel.hive.model.roadnetwork.osm.osm_roadnetwork import OSMRoadNetwork

    return OSMRoadNetwork(g, sim_h3_resolution=h3res, default_speed_kmph=default_speed)


class NetView:
    """index of an OSMRoadNetwork for the harness"""

    def __init__(self, rn, gid: str, ref, from_inputs: bool = False, default_speed: float = 40.0):
        self.rn, self.gid, self.ref = rn, gid, ref
        self.from_inputs = from_inputs
        self.default_speed = default_speed        # what the scenario configures for links that carry no speed
        self.nodes = sorted(ref.nodes())
        self.ix = {n: i + 1 for i, n in enumerate(self.nodes)}
        self.links = sorted({f"{u}-{v}" for u, v in ref.edges()})
        self.edges = []
        for u, v, d in ref.edges(data=True):
            self.edges.append([self.ix[u], self.ix[v], self.weight_ms(d)])

    def weight_ms(self, d: Dict[str, Any]) -> int:
        """the travel time of a link: the graph's own travel_time attribute when the input provides one; for a graph
        that comes without it (the generated ones) the time implied by the INPUT length and speed, independently of what
        the network object stored"""
        if self.from_inputs:
            return int(round(float(d["length"]) / 1000.0 / float(d.get("speed_kmph") or self.default_speed) * 3600_000))
        return int(round(float(d["travel_time"]) * 1000))

    def graph_line(self, fw: bool) -> Dict[str, Any]:
        # node positions are quantised to res-15 cells (about a metre): "fastest" is claimed up to the time it takes to
        # drive two metres at the graph's top speed
        vmax = max(float(d.get("speed_kmph") or self.default_speed) for _, _, d in self.ref.edges(data=True))
        slack = int(2.0 / (vmax / 3.6) * 1000) + 1
        return {"k": "graph", "id": self.gid, "n": len(self.nodes), "edges": self.edges, "fw": fw, "slack": slack}

    def nodes_of(self, link_id: str) -> Tuple[int, int]:
        a, b = link_id.split("-")
        return self.ix[int(a)], self.ix[int(b)]

    def cells(self, link_id: str) -> List[str]:
        """the cells of a link, from the INPUT junction coordinates at the network's resolution (not from the network's
        link table: a link the table lost must not stop the harness - it shows as a route that cannot be built)"""
        import h3

        a, b = link_id.split("-")
        res = self.rn.sim_h3_resolution
        na, nb = self.ref.nodes[int(a)], self.ref.nodes[int(b)]
        return list(h3.h3_line(h3.geo_to_h3(na["y"], na["x"], res), h3.geo_to_h3(nb["y"], nb["x"], res)))

    def potentials(self, src_ix: int) -> List[int]:
        import networkx as nx

        src = self.nodes[src_ix - 1]
        dist = nx.single_source_dijkstra_path_length(self.ref, src, weight=lambda u, v, d: min(self.weight_ms(x) for x in d.values()))
        return [int(dist.get(n, 10 ** 8)) for n in self.nodes]


def position(view: NetView, link_id: str, where: str, rng: random.Random):
    from nrel.hive.model.entity_position import EntityPosition

    cells = view.cells(link_id)
    if where == "start":
        c = cells[0]
    elif where == "end":
        c = cells[-1]
    else:
        c = cells[rng.randrange(len(cells))] if len(cells) < 3 else cells[rng.randrange(1, len(cells) - 1)]
    return EntityPosition(link_id, c), cells.index(c)


def route_record(view: Optional[NetView], rn, net: str, rid: str, o, d, cls: str, with_pi: bool) -> Dict[str, Any]:
    route = rn.route(o, d)
    links = []
    for lt in route:
        nl = rn.link_from_link_id(lt.link_id)
        links.append([str(lt.link_id), lt.start, lt.end, nl.start if nl else "", nl.end if nl else "", nl is not None])
    rec: Dict[str, Any] = {"k": "route", "id": rid, "net": net, "cls": cls, "same": bool(o == d),
                           "o": {"link": str(o.link_id), "geoid": o.geoid}, "d": {"link": str(d.link_id), "geoid": d.geoid},
                           "route": links, "inner": [], "onode": 0, "dnode": 0, "tt": 0}
    if net == "osm" and view is not None and route:
        rec["onode"] = view.nodes_of(str(o.link_id))[1]
        rec["dnode"] = view.nodes_of(str(d.link_id))[0]
        inner = [view.nodes_of(l[0]) for l in links[1:-1]]
        rec["inner"] = [list(p) for p in inner]
        w = {}
        for u, v, t in view.edges:
            w[(u, v)] = min(t, w.get((u, v), 10 ** 9))
        rec["tt"] = int(sum(w.get(p, 10 ** 8) for p in inner))
        if with_pi:
            rec["pi"] = view.potentials(rec["onode"])
    return rec


def snap_record(rn, net: str, sid: str, geoid: str) -> Dict[str, Any]:
    import h3

    pos = rn.position_from_geoid(geoid)
    if pos is None:
        return {"k": "snap", "id": sid, "net": net, "exists": False, "on_link": False}
    lk = rn.link_from_link_id(pos.link_id)
    on = lk is not None and pos.geoid in set(h3.h3_line(lk.start, lk.end))
    return {"k": "snap", "id": sid, "net": net, "exists": lk is not None, "on_link": bool(on)}


PAIR_CLASSES = ["same_link_forward", "same_link_backward", "same_position", "adjacent", "opposite_directions", "ends", "interiors", "random"]


def pairs_for(view: NetView, rng: random.Random, n: int) -> List[Tuple[Any, Any, str]]:
    out = []
    links = view.links
    by_tail: Dict[int, List[str]] = {}
    for l in links:
        by_tail.setdefault(view.nodes_of(l)[0], []).append(l)
    for k in range(n):
        cls = PAIR_CLASSES[k % len(PAIR_CLASSES)]
        a = rng.choice(links)
        if cls in ("same_link_forward", "same_link_backward", "same_position"):
            cells = view.cells(a)
            i, j = sorted([rng.randrange(len(cells)), rng.randrange(len(cells))])
            if cls == "same_position":
                j = i
            elif cls == "same_link_backward":
                i, j = j, i
            from nrel.hive.model.entity_position import EntityPosition

            out.append((EntityPosition(a, cells[i]), EntityPosition(a, cells[j]), cls))
            continue
        if cls == "adjacent":
            nxt = by_tail.get(view.nodes_of(a)[1], [])
            b = rng.choice(nxt) if nxt else rng.choice(links)
        elif cls == "opposite_directions":
            u, v = a.split("-")
            b = f"{v}-{u}" if f"{v}-{u}" in set(links) else rng.choice(links)
        else:
            b = rng.choice(links)
        wa = {"ends": rng.choice(["start", "end"]), "interiors": "mid"}.get(cls, rng.choice(["start", "mid", "end"]))
        wb = {"ends": rng.choice(["start", "end"]), "interiors": "mid"}.get(cls, rng.choice(["start", "mid", "end"]))
        pa, _ = position(view, a, wa, rng)
        pb, _ = position(view, b, wb, rng)
        out.append((pa, pb, cls))
    return out


def all_link_pairs(view: NetView, rng: random.Random) -> List[Tuple[Any, Any, str]]:
    out = []
    for a in view.links:
        for b in view.links:
            pa, _ = position(view, a, rng.choice(["start", "mid", "end"]), rng)
            pb, _ = position(view, b, rng.choice(["start", "mid", "end"]), rng)
            out.append((pa, pb, "all_link_pairs"))
    return out


def write_records(path: Path, job: Dict[str, Any]) -> Dict[str, Any]:
    """one worker: build the network of the job and write its records"""
    rng = random.Random(job["seed"])
    n_routes = 0
    with Path(path).open("w") as f:
        def w(rec):
            f.write(json.dumps(rec, separators=(",", ":")) + "\n")

        kind = job["net"]
        if kind == "haversine":
            import h3

            from nrel.hive.model.roadnetwork.haversine_roadnetwork import HaversineRoadNetwork

            rn = HaversineRoadNetwork()
            for k in range(job["n"]):
                a = h3.geo_to_h3(*world.at(rng.uniform(-3000, 3000), rng.uniform(-3000, 3000)), 15)
                b = a if k % 7 == 0 else h3.geo_to_h3(*world.at(rng.uniform(-3000, 3000), rng.uniform(-3000, 3000)), 15)
                o, d = rn.position_from_geoid(a), rn.position_from_geoid(b)
                w(route_record(None, rn, "haversine", f"{job['id']}#{k}", o, d, "same_position" if a == b else "random", False))
                w(snap_record(rn, "haversine", f"{job['id']}#s{k}", a))
                n_routes += 1
                if a != b and k % 3 == 0:
                    # the vehicle is under way on that straight link (its position names the link and a cell part-way down it)
                    # and is routed again: to where it was going, and to somewhere else
                    from nrel.hive.model.entity_position import EntityPosition

                    first = rn.route(o, d)
                    line = list(h3.h3_line(a, b))
                    if first and len(line) > 2:
                        mid = EntityPosition(first[0].link_id, line[rng.randrange(1, len(line) - 1)])
                        w(route_record(None, rn, "haversine", f"{job['id']}#{k}u", mid, d, "vehicle_under_way", False))
                        c = h3.geo_to_h3(*world.at(rng.uniform(-3000, 3000), rng.uniform(-3000, 3000)), 15)
                        w(route_record(None, rn, "haversine", f"{job['id']}#{k}v", mid, rn.position_from_geoid(c), "vehicle_under_way", False))
                        n_routes += 2
            return {"routes": n_routes, "net": kind}
        if kind == "file":
            rn, ref = load_osm(Path(job["path"]))
            view = NetView(rn, job["id"], ref)
            fw = False
        else:
            if kind == "dogleg":
                g = gen_dogleg_graph(rng, job.get("scale_km", 8.0))
            else:
                g = gen_graph(rng, job["nodes"], first_id=job.get("first_id", 1), origin=job.get("origin"), speeds=job.get("speeds"))
                if job.get("parallel", True):
                    add_parallel_links(g, rng, max(1, job["nodes"] // 4))
                if job.get("split_junction"):
                    split_junction(g, rng)
                if job.get("untagged"):
                    drop_speed_tags(g, rng, job["untagged"])
            ref = copy_graph(g)
            rn = osm_from_graph(g, job.get("h3res", 15), job.get("default_speed", 40.0))
            view = NetView(rn, job["id"], ref, from_inputs=True, default_speed=job.get("default_speed", 40.0))
            fw = len(view.nodes) <= 14
        w(view.graph_line(fw))
        pairs = all_link_pairs(view, rng) if job.get("all_pairs") else pairs_for(view, rng, job["n"])
        for k, (o, d, cls) in enumerate(pairs):
            w(route_record(view, rn, "osm", f"{job['id']}#{k}", o, d, cls, with_pi=not fw and job.get("with_pi", True)))
            n_routes += 1
        # the same pairs of LINKS asked again from other positions along them (whatever the network remembers of earlier
        # answers must not leak into later ones)
        again = rng.sample(pairs, min(len(pairs), max(10, len(pairs) // 5)))
        for k, (o, d, cls) in enumerate(again):
            o2, _ = position(view, str(o.link_id), rng.choice(["start", "mid", "end"]), rng)
            d2, _ = position(view, str(d.link_id), rng.choice(["start", "mid", "end"]), rng)
            w(route_record(view, rn, "osm", f"{job['id']}#again{k}", o2, d2, cls + "/asked_again", with_pi=not fw and job.get("with_pi", True)))
            n_routes += 1
        # positions of vehicles under way: a vehicle that has covered part of a link in earlier steps stands on a cell that was
        # interpolated along the link and lies a cell or two beside the line of cells the network draws for that link
        import h3
        from nrel.hive.model.entity_position import EntityPosition

        for k, (o, d, cls) in enumerate(again):
            cells = view.cells(str(o.link_id))
            c = cells[len(cells) // 2] if k % 2 else cells[rng.randrange(len(cells))]
            beside = sorted(h3.k_ring(c, rng.choice([1, 1, 2])) - set(cells))
            if not beside:
                continue
            o3 = EntityPosition(str(o.link_id), beside[rng.randrange(len(beside))])
            w(route_record(view, rn, "osm", f"{job['id']}#underway{k}", o3, d, cls + "/vehicle_under_way", with_pi=not fw and job.get("with_pi", True)))
            n_routes += 1

        for k in range(job.get("snaps", 40)):
            lat, lon = h3.h3_to_geo(rng.choice(view.cells(rng.choice(view.links))))
            geoid = h3.geo_to_h3(lat + rng.uniform(-4e-4, 4e-4), lon + rng.uniform(-4e-4, 4e-4), job.get("h3res", 15))
            w(snap_record(rn, "osm", f"{job['id']}#s{k}", geoid))
    return {"routes": n_routes, "net": kind, "nodes": len(view.nodes), "links": len(view.links), "fw": fw}
