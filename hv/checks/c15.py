"""C15 (the clock advances uniformly and stepping composes) and C16 (earlier states are never modified).

C15: M - Prop_C15 of the bounded model (only the tick changes the time, by one step), exhaustive.
     T - (i) the tick clause evaluated by TLC on recorded traces (HiveTrace); (ii) the same freshly loaded scenario
         advanced as crank(n), crank(a);crank(b);..., crank(1) x n and LocalSimulationRunner.run must show the same
         observation at every step, the same events and the same summary (HiveAgree!Agree), with built-in generators and
         a stateful controller that returns an updated copy of itself every step; (iii) the batch runner's step count,
         final time and refusal to step beyond the end checked against the interval arithmetic (HiveAgree!RunnerOK),
         including intervals that are not a whole number of steps.
C16: T - states retained during runs are deep-fingerprinted (every nested container) when obtained and re-read after one
         and several later steps, after being stepped / instructed themselves, and at the end (HiveAgree!Agree on the two
         readings); the same retained state stepped twice (StepSimulation.update) and instructed twice (apply_instructions)
         must give the same result.  TLA+ values are immutable by construction: there is nothing to enumerate in a model,
         this property lives in the conformance half (DESIGN 6)."""
from __future__ import annotations

import json
import random
from typing import Any, Dict, List

from hv import agree, core, mcworlds
from hv.checks.c13 import validate_with
from hv.common import Ctx, MachineryError
from hv.world import SCEN_DENVER


def c15_scenarios(ctx: Ctx) -> List[Dict[str, Any]]:
    base = 1000 * ctx.seed
    sc: List[Dict[str, Any]] = []
    n = ctx.pick(60, 200)
    sc.append({"id": "denver_demo", "src": "shipped", "scenario": str(SCEN_DENVER / "denver_demo.yaml"), "steps": n,
               "sim_overrides": {"end_time": 60 * n}})
    sc.append({"id": "denver_fleets", "src": "shipped", "scenario": str(SCEN_DENVER / "denver_demo_fleets.yaml"), "steps": n,
               "sim_overrides": {"end_time": 60 * n}})
    for k in range(ctx.pick(10, 80)):
        focus = [None, "dispatch", "inputs", "energy", "shift"][k % 5]
        wk: Dict[str, Any] = {"focus": focus} if focus else {}
        sc.append({"id": f"gen{base + k}", "src": "gen", "seed": 51000 + base + k, "steps": ctx.pick(36, 60), "world_kwargs": wk,
                   "mix": ["builtin", "builtin+counter", "counter+builtin", "adv+builtin+counter"][k % 4]})
    # a controller that draws from the global random stream (seeded once by the user after loading)
    for k in range(ctx.pick(4, 24)):
        sc.append({"id": f"dice{base + k}", "src": "gen", "seed": 51500 + base + k, "steps": ctx.pick(36, 60),
                   "world_kwargs": {"focus": "dispatch"} if k % 2 else {}, "mix": ["dice+builtin", "builtin+dice"][k % 2]})
    return sc


def splits(rng: random.Random, n: int) -> List[int]:
    cuts = sorted(rng.sample(range(1, n), min(n - 1, rng.randint(1, 4))))
    out, prev = [], 0
    for c in cuts + [n]:
        out.append(c - prev)
        prev = c
    # a co-simulation driver that follows a finer external clock also makes calls of ZERO steps: they do nothing
    for _ in range(rng.randint(0, 2)):
        out.insert(rng.randrange(len(out) + 1), 0)
    return out


def run_c15(ctx: Ctx) -> None:
    # M
    mcworlds.ensure_modules()
    core.run_model(ctx, "MC_core_quick", "MC_core_quick-C15", core.model_cfg("MC_core_quick", max_e=2, max_t=ctx.pick(3, 5), invariants=["TypeOK"],
                                                                             properties=["Prop_C15"]))
    # T (i): tick clause on recorded traces
    items = [{"id": f"adv{k}", "kind": "adv", "seed": 52000 + 1000 * ctx.seed + k, "steps": 40, "with_route": False,
              "world_kwargs": {"dt": [1, 7, 45, 60, 600][k % 5], "osm": k % 3 == 0}} for k in range(ctx.pick(12, 120))]      # both network types
    files = core.produce(ctx, items)
    tvt = core.validate(ctx, files, {"C15"})
    for v in tvt.viol:
        ctx.violation(v["c"], f"{v['c']}/{v['s']}", witness=v["w"], line=v["line"], file=v["file"])
    # T (ii), (iii)
    sc = c15_scenarios(ctx)
    rng = random.Random(ctx.seed + 5)
    variants = []
    groups_by_variant: Dict[str, List[Dict[str, Any]]] = {}
    for s in sc:
        n = s["steps"]
        vs = {"one_call": [n], "split": splits(rng, n), "single_steps": [1] * n, "runner": "runner"}
        for lab, sp in vs.items():
            groups_by_variant.setdefault(lab, []).append(dict(s, label=lab, split=sp))
        # a split at which the co-simulation user takes the instruction generators out of the payload and puts them back
        # unchanged (the documented get / update_instruction_generator idiom): that must not change anything either
        groups_by_variant.setdefault("split_put_back", []).append(dict(s, label="split_put_back", split=splits(rng, n), api_touch=True))
    # intervals that are not a whole number of steps: the runner alone (its numbers) and against crank(ceil)
    odd = []
    for k in range(ctx.pick(8, 40)):
        dt = [60, 37, 7, 400][k % 4]
        n = 10 + k
        r = 1 + (k * 13) % (dt - 1)
        wid = f"odd{k}"
        job = {"id": wid, "src": "gen", "seed": 53000 + k, "steps": n + 1, "world_kwargs": {"focus": "dispatch"}, "mix": "builtin",
               "end_override": r}
        odd.append(job)
    for j in odd:
        groups_by_variant.setdefault("runner", []).append(dict(j, label="runner", split="runner"))
        groups_by_variant.setdefault("one_call", []).append(dict(j, label="one_call", split=[j["steps"]]))
    groups = [("0", jobs) for lab, jobs in sorted(groups_by_variant.items())]
    # spread over more processes
    spread = []
    for h, jobs in groups:
        half = (len(jobs) + 2) // 3
        for i in range(0, len(jobs), half):
            spread.append((h, jobs[i:i + half]))
    res = agree.run_workers(ctx, spread)
    log = ctx.work / "agree_c15.ndjson"
    if log.exists():
        log.unlink()
    compared = 0
    with log.open("a") as f:
        pass
    for s in sc + odd:
        labels = ["one_call", "split", "single_steps", "runner", "split_put_back"] if s in sc else ["one_call", "runner"]
        runs = [res[s["id"] + "|" + lab] for lab in labels]
        errs = [r for r in runs if "error" in r]
        if errs:
            if len(errs) == len(runs) and len({r["error"] for r in errs}) == 1:
                ctx.notes.append(f"scenario {s['id']} raises {errs[0]['error']} in every variant")
                continue
            ctx.violation("split_runs_agree", "crash_in_some_variants_only", scenario=s["id"], errors=[(r["label"], r["error"]) for r in errs])
            continue
        agree.merge(log, s["id"], runs, "C15", "split_runs_agree")
        compared += 1
        for r in runs:
            if "runner" in r:
                with log.open("a") as f:
                    f.write(json.dumps(r["runner"], separators=(",", ":")) + "\n")
    cfg = ctx.work / "HiveAgree.cfg"
    cfg.write_text("SPECIFICATION TraceSpec\nPOSTCONDITION Done\nCHECK_DEADLOCK FALSE\n")
    tv = validate_with(ctx, [log], str(cfg), "HiveAgree")
    ctx.coverage["traces_validated_against_impl"] = compared * 4 + len(ctx.coverage.get("runs", []))
    ctx.coverage["evaluations"] = tv.lines + tvt.lines
    ctx.coverage["distinct_nontrivial"] = compared
    ctx.coverage["rule"] = "scenarios whose differently split executions (one call / random split / single steps / batch runner) were compared in lock step"
    ctx.sample({"scenario": sc[2]["id"], "split": groups_by_variant["split"][2]["split"]})
    _report(ctx, tv, log)


def _report(ctx: Ctx, tv, log) -> None:
    for v in tv.viol:
        rec = json.loads(core.excerpt(log, v["line"], before=0, maxlen=10 ** 8)[0].split(": ", 1)[1])
        if rec["k"] == "runner":
            ctx.violation(v["c"], f"{v['c']}/{v['s']}", record=rec)
            continue
        other = v["w"].split(":")[0]
        j = rec["labels"].index(other) if other in rec["labels"] else 1
        ent = v["w"].split(":", 1)[1] if ":" in v["w"] else ""
        a = dict(map(tuple, rec["vals"][0]["state"])).get(ent)
        b = dict(map(tuple, rec["vals"][j]["state"])).get(ent)
        ctx.violation(v["c"], f"{v['c']}/{rec['k']}/{'reports' if v['s'].endswith('reports') else 'state'}", scenario=rec["scen"], index=rec["i"],
                      kind=rec["k"], run=other, entity=ent, first=(a or "")[:500], other=(b or "")[:500], count=v["n"])


def run_c16(ctx: Ctx) -> None:
    base = 1000 * ctx.seed
    jobs: List[Dict[str, Any]] = []
    for k in range(ctx.pick(24, 160)):
        focus = [None, "energy", "dispatch", "energy", "fleet", "queue"][k % 6]
        wk: Dict[str, Any] = {"focus": focus} if focus else {}
        if focus == "energy":
            wk["dt"] = 60
        jobs.append({"id": f"saved{base + k}", "label": "saved", "mode": "saved", "src": "gen", "seed": 61000 + base + k, "steps": ctx.pick(30, 50),
                     "world_kwargs": wk, "mix": ["builtin+adv", "adv", "builtin", "adv+builtin"][k % 4] if focus != "energy" else "adv",
                     "every": 5 if focus != "energy" else 3, "later": 8, "throttle": focus == "energy"})
        if k % 3 == 1:
            jobs[-1]["dispatcher"] = {"charging_search_type": "shortest_time_to_charge"}     # the other station ranking
        if focus is None:
            jobs[-1]["mix"] = "plan+builtin" if k % 2 == 0 else "builtin+plan"       # a controller that re-uses its instruction objects
        if focus == "queue":
            jobs[-1]["mix"] = ["builtin", "builtin+adv"][k % 2]       # the charging manager ranks a full station with a queue
        if focus == "energy":
            # plenty of simultaneous charging on plugs of different (throttled) power
            jobs[-1].update({"kinds": ["ChargeStation", "ChargeStation", "ChargeStation", "Idle", "DispatchStation", "ChargeBase"], "p_instr": 0.5})
    for k in range(ctx.pick(6, 40)):
        # every state of a short run retained, in worlds where the charging manager searches for stations right away
        jobs.append({"id": f"savedt{base + k}", "label": "saved", "mode": "saved", "src": "gen", "seed": 62000 + base + k, "steps": 24,
                     "world_kwargs": {"focus": "ties"}, "mix": "builtin", "every": 1 if k % 2 == 0 else 2, "later": 8})
        if k % 3 == 1:
            jobs[-1]["dispatcher"] = {"charging_search_type": "shortest_time_to_charge"}
    for k in range(ctx.pick(6, 40)):
        # what-if worlds: where the charging manager sends a vehicle depends on the charge of those already plugged in
        jobs.append({"id": f"savedw{base + k}", "label": "saved", "mode": "saved", "src": "gen", "seed": 63000 + base + k, "steps": 18,
                     "world_kwargs": {"focus": "whatif"}, "mix": "builtin", "every": 1, "later": 8,
                     "dispatcher": {"charging_search_type": "shortest_time_to_charge" if k % 3 else "nearest_shortest_queue"}})
    jobs.append({"id": "denver_demo", "label": "saved", "mode": "saved", "src": "shipped", "scenario": str(SCEN_DENVER / "denver_demo.yaml"),
                 "steps": ctx.pick(60, 400), "every": 10, "later": 15})
    # a powertrain defined with no idle consumption at all (the shipped toy car): updates that change nothing about a vehicle's energy
    jobs.append({"id": "denver_rl_toy", "label": "saved", "mode": "saved", "src": "shipped", "scenario": str(SCEN_DENVER / "denver_rl_toy.yaml"),
                 "steps": ctx.pick(40, 200), "every": 4, "later": 8})
    groups = [("0", jobs[i::6]) for i in range(6) if jobs[i::6]]
    res = agree.run_workers(ctx, groups)
    log = ctx.work / "agree_c16.ndjson"
    n_saved = 0
    mutable = set()
    with log.open("w") as f:
        for key, r in sorted(res.items()):
            if "error" in r:
                ctx.notes.append(f"run {key} raised {r['error']}")
                ctx.coverage.setdefault("crashed_runs", []).append(r)
                continue
            n_saved += r["saved"]
            mutable.update(r["mutable"])
            for line in r["lines"]:
                f.write(json.dumps(line, separators=(",", ":")) + "\n")
    cfg = ctx.work / "HiveAgree.cfg"
    cfg.write_text("SPECIFICATION TraceSpec\nPOSTCONDITION Done\nCHECK_DEADLOCK FALSE\n")
    tv = validate_with(ctx, [log], str(cfg), "HiveAgree")
    ctx.coverage["traces_validated_against_impl"] = len(jobs)
    ctx.coverage["evaluations"] = tv.lines
    ctx.coverage["states"] = max(1, tv.lines)
    ctx.coverage["transitions"] = max(1, tv.lines)
    ctx.coverage["distinct_nontrivial"] = n_saved
    ctx.coverage["rule"] = "retained states, each re-read after 1 and 8 later steps, after being stepped / instructed itself, and at the end"
    ctx.coverage["mutable_containers_reachable_from_states"] = sorted(mutable)
    ctx.sample({"retained_states": n_saved, "readings_compared": tv.lines})
    ctx.level = "model_checking"
    ctx.notes.append("no bounded model: TLA+ values are immutable by construction; the property is decided on observed behaviours, with TLC "
                     "evaluating HiveAgree!Agree on the two readings of every retained state")
    _report(ctx, tv, log)


def run(ctx: Ctx) -> None:
    if ctx.prop == "C15":
        run_c15(ctx)
    else:
        run_c16(ctx)


def replay(ctx: Ctx, rec: Dict[str, Any]) -> int:
    run(ctx)
    return ctx.finish()
