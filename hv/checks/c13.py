"""C13 (routes are connected paths; snapping lies on the link) and C14 (street-graph routes are fastest paths).

The declarative definitions RouteOK / SnapOK / Optimal of HiveRoute.tla are evaluated by TLC on records of calls of the
REAL OSMRoadNetwork.route / HaversineRoadNetwork.route / position_from_geoid / link_from_link_id:
 * generated strongly connected street graphs (one-way and two-way streets, speeds varying x10): on small graphs TLC
   computes all-pairs fastest times itself (Floyd-Warshall in TLA+) and EVERY pair of links is queried;
 * the shipped Denver (and, thorough, Manhattan) graphs with position pairs drawn from all classes (same link before /
   after, adjacent links, opposite directions of a street, link ends and interiors); optimality through node potentials
   whose FEASIBILITY TLC checks edge by edge, so that a wrong certificate cannot hide a slow route."""
from __future__ import annotations

from typing import Any, Dict, List

from hv import core
from hv.checks.c12 import validate_records
from hv.common import Ctx, MachineryError
from hv.world import SCEN_DENVER, SCEN_MANHATTAN


def jobs(ctx: Ctx, prop: str) -> List[Dict[str, Any]]:
    base = 1000 * ctx.seed
    items: List[Dict[str, Any]] = []
    for k in range(ctx.pick(10, 60)):      # small graphs: every pair of links, optimum computed by TLC
        items.append({"id": f"small{base + k}", "kind": "routes", "net": "gen", "nodes": 5 + (k % 8), "seed": 31000 + base + k,
                      "all_pairs": True, "n": 0, "snaps": 30, "weight": 2, "first_id": k % 2})      # junctions numbered from 0 or 1
        if k % 3 == 1:
            # links without a speed tag, a configured default speed above (80) or below (12) every tagged speed
            items.append(dict(items[-1], id=f"untagged{base + k}", seed=38000 + base + k, untagged=0.4, default_speed=[80.0, 12.0][(k // 3) % 2]))
        if prop == "C13" and k % 3 == 0:
            # the same kind of graph at a coarser simulation resolution (hexes of about 9 m), with a junction drawn as two
            # nodes 4 m apart: links shorter than one cell.  C13 only: "fastest" has no meaning below the cell size
            items.append(dict(items[-1], id=f"coarse{base + k}", seed=37000 + base + k, h3res=12, split_junction=True))
    for k in range(ctx.pick(6, 30)):       # the same kind of town at other latitudes (San Francisco, Frankfurt, Sydney, Quito, Tromso)
        items.append({"id": f"abroad{base + k}", "kind": "routes", "net": "gen", "nodes": 8 + (k % 5), "seed": 39000 + base + k,
                      "all_pairs": True, "n": 0, "snaps": 20, "weight": 2,
                      "origin": [[37.77, -122.42], [50.11, 8.68], [-33.87, 151.21], [-0.18, -78.47], [69.65, 18.96]][k % 5]})
    for k in range(ctx.pick(6, 40)):       # medium graphs: sampled pairs by class, certificate
        items.append({"id": f"medium{base + k}", "kind": "routes", "net": "gen", "nodes": 20 + 8 * (k % 6), "seed": 32000 + base + k,
                      "n": ctx.pick(120, 400), "snaps": 40, "weight": 3})
    for k in range(ctx.pick(6, 30)):       # near ties at several scales: a straight street against a marginally faster dog-leg
        items.append({"id": f"dogleg{base + k}", "kind": "routes", "net": "dogleg", "scale_km": [4.0, 8.0, 20.0][k % 3],
                      "seed": 36000 + base + k, "all_pairs": True, "n": 0, "snaps": 10, "weight": 1})
    # a whole town (several thousand links) whose speeds differ by a factor of two only: whatever a router does to keep the
    # search small on big networks must not cost optimality; near pairs, whose fastest way round leads away from the straight line
    items.append({"id": f"town{base}", "kind": "routes", "net": "gen", "nodes": ctx.pick(800, 1500), "speeds": [30.0, 45.0, 60.0],
                  "seed": 37000 + base, "n": ctx.pick(240, 1500), "snaps": 10, "weight": 6})
    items.append({"id": "denver", "kind": "routes", "net": "file", "path": str(SCEN_DENVER / "road_network" / "downtown_denver_network.json"),
                  "seed": 33000 + base, "n": ctx.pick(320, 2400), "snaps": ctx.pick(150, 1000), "weight": 8})
    if not ctx.quick:
        items.append({"id": "manhattan", "kind": "routes", "net": "file", "path": str(SCEN_MANHATTAN / "road_network" / "manhattan_network.json"),
                      "seed": 34000 + base, "n": 600, "snaps": 300, "weight": 30, "with_pi": True})
    if prop == "C13":
        items.append({"id": "haversine", "kind": "routes", "net": "haversine", "seed": 35000 + base, "n": ctx.pick(300, 3000), "weight": 1})
    return items


def run(ctx: Ctx) -> None:
    P = ctx.prop
    model_states = 0
    if P == "C13":
        from hv import tlc

        cfgm = ctx.work / "routemodel.cfg"
        cfgm.write_text("SPECIFICATION Spec\nINVARIANT RouteOK\nCHECK_DEADLOCK FALSE\n")
        res = tlc.run_tlc("HiveRouteModel", str(cfgm), ctx.work, name="HiveRouteModel", workers=8, timeout=900)
        tlc.require_ok(res, allow_violations=True)
        if res.violated:
            raise MachineryError("the constructive route model violates its own contract: the specification is wrong")
        ctx.add_model(res)
        model_states = res.distinct
        ctx.log(f"HiveRouteModel: {res.distinct} (position pair, node path) combinations, RouteOK holds")
    files = core.produce(ctx, jobs(ctx, P))
    cfg = ctx.work / "HiveRoute.cfg"
    cfg.write_text(f'SPECIFICATION TraceSpec\nCONSTANTS\n  Enabled = {{"{P}"}}\nPOSTCONDITION Done\nCHECK_DEADLOCK FALSE\n')
    import hv.checks.c12 as c12

    tv = validate_with(ctx, files, str(cfg), "HiveRoute")
    runs = ctx.coverage.get("runs", [])
    n_routes = sum(r.get("routes", 0) for r in runs)
    ctx.coverage["traces_validated_against_impl"] = n_routes
    ctx.coverage["evaluations"] = tv.lines
    ctx.coverage["states"] = ctx.coverage.get("states", 0) + max(1, tv.lines)
    ctx.coverage["transitions"] = ctx.coverage.get("transitions", 0) + max(1, tv.lines)
    classes = sorted(c for c in tv.cov if c[0] == "route")
    ctx.coverage["distinct_nontrivial"] = len(classes)
    ctx.coverage["rule"] = "distinct (position-pair class, network type) among the validated router calls"
    ctx.coverage["networks"] = runs
    ctx.sample({"classes": [list(c) for c in classes]})
    ctx.coverage["exhaustive"] = False
    ctx.notes.append("TLC is the evaluator of the declarative definitions here (a thin use of the tool, see DESIGN 6): on the small "
                     "graphs it also computes the optimum itself (all-pairs Floyd-Warshall) and every pair of links is queried")
    ctx.assumptions += ["h3.h3_line gives the cells of a link (trusted, used for 'lies on the link')",
                        "edge weights are the graph's travel_time attribute in integer milliseconds; tolerance one unit per link"]
    for v in tv.viol:
        if v["p"] == "MACHINERY":
            raise MachineryError(f"certificate infeasible at {v['file']}:{v['line']}")
        f = ctx.work / v["file"]
        ctx.violation(v["c"], f"{v['c']}/{v['s']}", witness=v["w"], line=v["line"], file=v["file"], count=v["n"],
                      record=core.excerpt(f, v["line"], before=0, maxlen=900))


def validate_with(ctx: Ctx, files, cfg: str, module: str):
    import concurrent.futures as cf
    import json
    from pathlib import Path

    from hv import tlc

    tv = core.TraceVerdict()
    files = [f for f in files if Path(f).stat().st_size > 0]
    with cf.ThreadPoolExecutor(max_workers=12) as ex:
        results = list(ex.map(core._validate_one, [(str(f), cfg, str(ctx.work), module) for f in files]))
    for path, res in results:
        tlc.require_ok(res)
        viol, covr = tlc.printed(res, "VIOL"), tlc.printed(res, "COVR")
        if not viol:
            raise MachineryError(f"no verdict printed for {path}:\n" + "\n".join(res.out.splitlines()[-25:]))
        for v in json.loads(tlc.tla_str_to_py(viol[-1])):
            v["file"] = Path(path).name
            tv.viol.append(v)
        if covr:
            for c in json.loads(tlc.tla_str_to_py(covr[-1])):
                tv.cov.add(tuple(c))
        divg = tlc.printed(res, "DIVG")
        if divg:
            for d in json.loads(tlc.tla_str_to_py(divg[-1])):
                d["file"] = Path(path).name
                tv.divg.append(d)
        tv.lines += max(0, res.distinct - 1)
    return tv


def replay(ctx: Ctx, rec: Dict[str, Any]) -> int:
    run(ctx)
    return ctx.finish()
