"""C19 - the event log accounts for every state change.

T: whole runs (shipped scenarios and generated worlds, built-in and adversarial controllers) through the REAL file-writing
   handlers; the written event.log is parsed back, set step by step against the state changes recorded through the hooks,
   and TLC (HiveEvents.tla) evaluates the accounting clauses with the running sums as history variables.
M: the bounded model contributes nothing beyond HiveCore's actions here; stated in the evidence."""
from __future__ import annotations

from typing import Any, Dict, List

from hv import core
from hv.checks.c13 import validate_with
from hv.common import Ctx
from hv.world import SCEN_DENVER


def run(ctx: Ctx) -> None:
    base = 1000 * ctx.seed
    items: List[Dict[str, Any]] = []
    for nm, steps in (("denver_demo.yaml", ctx.pick(240, 1440)), ("denver_demo_constrained_charging.yaml", ctx.pick(200, 1440)),
                      ("denver_demo_fleets.yaml", ctx.pick(160, 1440))):
        items.append({"id": nm.replace(".yaml", ""), "kind": "events", "scenario": str(SCEN_DENVER / nm), "steps": steps, "seed": 1, "weight": 10})
    for k in range(ctx.pick(36, 400)):
        focus = [None, "dispatch", "energy", "dispatch", "inputs", None][k % 6]
        wk: Dict[str, Any] = {"focus": focus} if focus else {}
        if focus is None and k % 6 == 5:
            wk["pool"] = True          # requests that allow pooling (their hand-off fails on arrival: finding F15)
        if focus is None and k % 12 == 0:
            wk.update({"dry": True, "far": True})     # vehicles that run dry on the road: the last leg must be reported too
        if focus in (None, "dispatch") and k % 2 == 0:
            wk["dt"] = [37, 45, 60, 90][k % 4] if focus is None else None
            wk = {a: b for a, b in wk.items() if b is not None}
        items.append({"id": f"ev{base + k}", "kind": "events", "seed": 71000 + base + k, "steps": ctx.pick(50, 80), "world_kwargs": wk,
                      "mix": "adv" if wk.get("dry") else ["builtin", "builtin+adv", "adv+builtin", "builtin"][k % 4], "weight": 1})
        if wk.get("dry"):
            items[-1].update({"kinds": ["Reposition", "Reposition", "DispatchBase", "DispatchStation", "Idle"], "p_instr": 0.7})
        if (k % 4 == 1 or k % 6 == 0) and not wk.get("pool"):
            items[-1]["reuse_ids"] = True      # the file's numbering starts again: ids come back after their first request is gone
        if k % 9 == 4:
            items[-1]["rerun"] = True      # once more into the same output directory
    files = core.produce(ctx, items)
    cfg = ctx.work / "HiveEvents.cfg"
    cfg.write_text("SPECIFICATION TraceSpec\nPOSTCONDITION Done\nCHECK_DEADLOCK FALSE\n")
    tv = validate_with(ctx, files, str(cfg), "HiveEvents")
    runs = ctx.coverage.get("runs", [])
    ctx.coverage["traces_validated_against_impl"] = len(runs)
    ctx.coverage["evaluations"] = tv.lines
    ctx.coverage["states"] = max(1, tv.lines)
    ctx.coverage["transitions"] = max(1, tv.lines)
    ctx.coverage["distinct_nontrivial"] = len([c for c in tv.cov if c[0] == "events"])
    ctx.coverage["rule"] = "kinds of events (move, charge, pickup, drop-off, cancel) that occurred in the validated logs"
    ctx.coverage["events_in_logs"] = sum(r.get("events", 0) for r in runs)
    ctx.sample({"runs": runs[:3]})
    ctx.notes.append("no bounded model for this property (DESIGN 6): TLC evaluates the accounting clauses over logs parsed back from the files "
                     "the real handlers wrote; the per-step state changes are derived by the harness from the hook-recorded deltas (trusted)")
    ctx.assumptions += ["a block of event.log belongs to one step: blocks are delimited by the station load events the handler writes first at "
                        "every flush (all scenarios have stations)"]
    # beyond the property: the time-step statistics rows against spec/HiveStats.tla (divergences only)
    ctx.coverage["stats_rows_checked"] = sorted(c[1] for c in tv.cov if c[0] == "stats_row")
    seen = set()
    for d in tv.divg:
        key = (d["c"], d["s"])
        if key in seen:
            continue
        seen.add(key)
        ctx.divergence(action="HiveStats", what=d["c"], detail=d["s"], witness=d["w"], line=d["line"], count=d["n"], file=d["file"])
    for v in tv.viol:
        f = ctx.work / v["file"]
        ctx.violation(v["c"], f"{v['c']}/{v['s']}", witness=v["w"], line=v["line"], file=v["file"], count=v["n"],
                      record=core.excerpt(f, v["line"], before=0, maxlen=1200))


def replay(ctx: Ctx, rec: Dict[str, Any]) -> int:
    run(ctx)
    return ctx.finish()
