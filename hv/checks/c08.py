"""C08 - location indexes always agree with the entities.

M: HiveIndex.tla (transcription of simulation_state_ops + DictOps) explored exhaustively by TLC: IndexExact, Immobile.
G: EVERY transition TLC explored is replayed through the real add/modify/remove functions with concrete geoids; all eight
   index maps of the real state are compared with the model's successor and with the inverse of the real positions.
T: IndexExact evaluated by TLC on the index snapshots logged at every step boundary of real runs."""
from __future__ import annotations

import json
from dataclasses import replace
from pathlib import Path
from typing import Any, Dict, List, Tuple

from hv import core, tlc
from hv.common import Ctx, MachineryError
from hv.world import SCEN_DENVER

KINDS = ["veh", "req", "st", "bs"]


# what the current tree does (a wrong flag shows as violations of the replay): F19 is repaired in /repo
INDEX_FLAGS = {"FixReAdd": True}


def index_cfg(ids: Dict[str, List[str]], export: bool, flags: Dict[str, bool] = None) -> str:
    fl = dict(INDEX_FLAGS, **(flags or {}))
    def tset(xs):
        return "{" + ", ".join(f'"{x}"' for x in xs) + "}"

    return ("SPECIFICATION Spec\nCONSTANTS\n  Ids <- mcIds\n  Cells <- mcCells\n  SearchOf <- mcSearchOf\n"
            f"  Export = {'TRUE' if export else 'FALSE'}\n  FixReAdd = {'TRUE' if fl['FixReAdd'] else 'FALSE'}\nINVARIANT IndexExact\nPROPERTY Immobile\nVIEW view\n"
            "ACTION_CONSTRAINT Edge\nCHECK_DEADLOCK FALSE\n")


def write_mc(ctx: Ctx, name: str, ids: Dict[str, List[str]], cells: int = 4) -> str:
    def tset(xs):
        return "{" + ", ".join(f'"{x}"' for x in xs) + "}"

    arms = " [] ".join(f'k = "{k}" -> {tset(ids[k])}' for k in KINDS[:-1]) + f' [] OTHER -> {tset(ids["bs"])}'
    text = (f"---- MODULE {name} ----\nEXTENDS HiveIndex\n"
            f'mcIds == [k \\in Kinds |-> CASE {arms}]\n'
            f'mcCells == {tset(["c1", "c2", "c3", "c4"][:cells])}\n'
            'mcSearchOf == [c \\in mcCells |-> IF c \\in {"c1", "c2"} THEN "S1" ELSE "S2"]\n====\n')
    # TLC resolves EXTENDS next to the root module: the generated module lives beside HiveIndex.tla
    from hv.common import SPEC
    import os
    import tempfile

    path = SPEC / f"{name}.tla"
    if not path.exists() or path.read_text() != text:
        fd, tmp = tempfile.mkstemp(dir=str(SPEC), suffix=".tmp")
        with os.fdopen(fd, "w") as f:
            f.write(text)
        os.replace(tmp, path)
    return name


def concrete_cells() -> Dict[str, str]:
    import h3

    from hv import world

    c1 = h3.geo_to_h3(*world.at(0, 0), 15)
    c2 = sorted(h3.k_ring(c1, 3) - h3.k_ring(c1, 2))[0]
    c3 = h3.geo_to_h3(*world.at(4000, 0), 15)
    c4 = sorted(h3.k_ring(c3, 5) - h3.k_ring(c3, 4))[0]
    cells = {"c1": c1, "c2": c2, "c3": c3, "c4": c4}
    par = {k: h3.h3_to_parent(v, 7) for k, v in cells.items()}
    if not (par["c1"] == par["c2"] != par["c3"] == par["c4"]):
        raise MachineryError(f"geometry does not realise the model's search cells: {par}")
    return cells


class Real:
    """the real operations on a real SimulationState"""

    def __init__(self, network: str = "haversine"):
        import logging

        logging.disable(logging.CRITICAL)
        from nrel.hive.model.roadnetwork.haversine_roadnetwork import HaversineRoadNetwork
        from nrel.hive.state.simulation_state.simulation_state import SimulationState

        self.network = network
        if network == "osm":
            # a street network: the model's cells are NOT on any street's line of cells, as the interpolated position of a
            # vehicle under way is not - an entity is indexed where it IS, not where the network would snap it to
            import random

            from hv import routes

            self.rn = routes.osm_from_graph(routes.gen_graph(random.Random(8), 16))
        else:
            self.rn = HaversineRoadNetwork()
        self.empty = SimulationState(road_network=self.rn, sim_h3_location_resolution=15, sim_h3_search_resolution=7)
        self.cells = concrete_cells()
        self.abs_of = {v: k for k, v in self.cells.items()}

    def entity(self, kind: str, ident: str, cell: str):
        from nrel.hive.resources import mock_lobster as ml

        g = self.cells[cell]
        if kind == "veh":
            return ml.mock_vehicle_from_geoid(vehicle_id=ident, geoid=g)
        if kind == "req":
            return ml.mock_request_from_geoids(request_id=ident, origin=g, destination=self.cells["c1"])
        if kind == "st":
            return ml.mock_station_from_geoid(station_id=ident, geoid=g)
        return ml.mock_base_from_geoid(base_id=ident, geoid=g)

    def apply(self, sim, op: Dict[str, str]):
        """returns (new sim, accepted?)"""
        from returns.result import Failure

        from nrel.hive.state.simulation_state import simulation_state_ops as ops

        k, x, c = op["k"], op["id"], op["c"]
        coll = {"veh": sim.vehicles, "req": sim.requests, "st": sim.stations, "bs": sim.bases}[k]
        name = {"veh": "vehicle", "req": "request", "st": "station", "bs": "base"}[k]
        if op["op"] == "add":
            r = getattr(ops, f"add_{name}_safe")(sim, self.entity(k, x, c))
        elif op["op"] == "remove":
            r = getattr(ops, f"remove_{name}_safe")(sim, x)
        else:
            old = coll[x]
            pos = self.rn.position_from_geoid(self.cells[c])
            if self.network == "osm":
                from nrel.hive.model.entity_position import EntityPosition

                pos = EntityPosition(pos.link_id, self.cells[c])      # on that link, at the cell itself (under way)
            r = getattr(ops, f"modify_{name}_safe")(sim, replace(old, position=pos))
        if isinstance(r, Failure):
            return sim, False
        return r.unwrap(), True

    def project(self, sim) -> Dict[str, Any]:
        import h3

        ent, loc, srch = {}, {}, {}
        for k, coll, l, s in (("veh", sim.vehicles, sim.v_locations, sim.v_search), ("req", sim.requests, sim.r_locations, sim.r_search),
                              ("st", sim.stations, sim.s_locations, sim.s_search), ("bs", sim.bases, sim.b_locations, sim.b_search)):
            ent[k] = {i: self.abs_of.get(e.geoid, e.geoid) for i, e in coll.items()}
            loc[k] = {self.abs_of.get(g, g): sorted(v) for g, v in l.items()}
            srch[k] = {g: sorted(v) for g, v in s.items()}
        return {"ent": ent, "loc": loc, "srch": srch}

    def exact(self, sim) -> List[str]:
        """IndexExact on the real state, computed from the real positions"""
        import h3

        bad = []
        for k, coll, l, s in (("veh", sim.vehicles, sim.v_locations, sim.v_search), ("req", sim.requests, sim.r_locations, sim.r_search),
                              ("st", sim.stations, sim.s_locations, sim.s_search), ("bs", sim.bases, sim.b_locations, sim.b_search)):
            want_l: Dict[str, set] = {}
            want_s: Dict[str, set] = {}
            for i, e in coll.items():
                want_l.setdefault(e.geoid, set()).add(i)
                want_s.setdefault(h3.h3_to_parent(e.geoid, sim.sim_h3_search_resolution), set()).add(i)
            if {g: set(v) for g, v in l.items()} != want_l:
                bad.append(f"{k}:location")
            if {g: set(v) for g, v in s.items()} != want_s:
                bad.append(f"{k}:search")
        return bad


def _key(ent: Dict[str, Any]) -> str:
    return json.dumps({k: dict(sorted((ent.get(k) or {}).items())) for k in KINDS}, sort_keys=True)


def _fix(ent: Any) -> Dict[str, Dict[str, str]]:
    # ToJson prints an empty function as [] and a function over strings as an object
    return {k: (ent[k] if isinstance(ent[k], dict) else {}) for k in KINDS}


def replay_edges(ctx: Ctx, edges: List[Dict[str, Any]], network: str = "haversine") -> Tuple[int, int]:
    real = Real(network)
    n_viol0 = len(ctx.violations)
    sims = {_key({k: {} for k in KINDS}): real.empty}
    pending = list(edges)
    done = 0
    refused = 0
    progress = True
    while pending and progress:
        progress = False
        rest = []
        for e in pending:
            s, t, op = _fix(e["s"]), _fix(e["t"]), e["op"]
            ks = _key(s)
            if ks not in sims:
                rest.append(e)
                continue
            progress = True
            new, accepted = real.apply(sims[ks], op)
            done += 1
            if not accepted:
                refused += 1
            proj = real.project(new)
            sig = f"{op['op']}/{op['k']}" + ("/street_network" if network == "osm" else "")
            if _key(proj["ent"]) != _key(t):
                ctx.violation("entities_follow_operation" if op["k"] in ("veh", "req") or op["op"] != "modify" else "stations_and_bases_never_move",
                              sig, edge=e, real_after=proj["ent"])
            bad = real.exact(new)
            if bad:
                ctx.violation("index_exact_after_operation", sig + "/" + bad[0].split(":")[1], edge=e, maps=bad, real_after=proj)
            kt = _key(proj["ent"])
            if kt not in sims and not bad:
                sims[kt] = new
        pending = rest
    if pending and len(ctx.violations) == n_viol0:
        # (when a transition went wrong its successor state is not kept, so what lies behind it is not replayed: the
        # violation already recorded explains that - only an unexplained gap is a failure of the machinery)
        raise MachineryError(f"{len(pending)} exported transitions start in a state the replay never reached")
    return done, refused


def run(ctx: Ctx) -> None:
    # two populations: several moving entities around one station / base, and several stations and bases sharing cells
    # (removal of one of two co-located immobile entities)
    configs = ctx.pick(
        [("MC_index_quick", {"veh": ["v1", "v2"], "req": ["r1"], "st": ["s1"], "bs": ["b1"]}),
         ("MC_index_quick2", {"veh": ["v1"], "req": [], "st": ["s1", "s2"], "bs": ["b1", "b2"]})],
        [("MC_index_thorough", {"veh": ["v1", "v2"], "req": ["r1", "r2"], "st": ["s1"], "bs": ["b1"]}),
         ("MC_index_thorough2", {"veh": ["v1"], "req": ["r1"], "st": ["s1", "s2"], "bs": ["b1", "b2"]})])
    done = refused = 0
    distinct = 0
    edges: List[Dict[str, Any]] = []
    for mc, ids in configs:
        # quick: three cells (two in one search cell, one in another: moves within, across and back); thorough: four
        name = write_mc(ctx, mc, ids, cells=ctx.pick(3, 4))
        cfg = ctx.work / f"{mc}.cfg"
        cfg.write_text(index_cfg(ids, export=True))
        ctx.log(f"TLC HiveIndex {mc} (exhaustive, exporting every transition) ...")
        res = tlc.run_tlc(name, str(cfg), ctx.work, name=name, workers=1, timeout=2400, heap="8g")
        tlc.require_ok(res, allow_violations=True)
        ctx.add_model(res)
        ctx.log(f"HiveIndex {mc}: {res.distinct} states / {res.generated} transitions, violated={res.violated}")
        if res.violated:
            raise MachineryError(f"the transcription HiveIndex itself violates {res.violated}: the specification is wrong")
        edges = [json.loads(tlc.tla_str_to_py(x)) for x in tlc.printed(res, "EDGE")]
        if not edges:
            raise MachineryError("no transitions exported")
        d, r = replay_edges(ctx, edges)
        done, refused, distinct = done + d, refused + r, distinct + res.distinct
        if mc == configs[0][0]:
            # the moving population once more on a street network (cells beside the streets)
            d, r = replay_edges(ctx, edges, network="osm")
            done, refused = done + d, refused + r
    ctx.log(f"replayed {done} model transitions through the real simulation_state_ops ({refused} refused moves of stations/bases)")
    ctx.coverage["model_transitions_replayed_in_code"] = done
    ctx.sample({"replayed_transition": edges[len(edges) // 2]})

    class _R:      # what the coverage lines below read
        pass

    res = _R()
    res.distinct = distinct
    # T: snapshots of real runs
    items: List[Dict[str, Any]] = []
    base = 1000 * ctx.seed
    for k in range(ctx.pick(24, 300)):
        items.append({"id": f"adv{base + k}", "kind": "adv", "seed": 900000 + base + k, "steps": ctx.pick(40, 60), "weight": 1,
                      "with_route": False, "with_index": True})
        if k % 3 == 1:
            items[-1]["cosim"] = ["unknown"]    # ... or to "modify" stations / bases the simulation does not hold
        if k % 4 == 2:
            items[-1]["resubmit"] = True        # riders submitting their request again under the same id from another place (F19)
        if k % 3 == 0:
            items[-1]["cosim"] = ["move"]       # a co-simulation user tries to move stations / bases through the safe API
    items.append({"id": "denver_demo", "kind": "shipped", "scenario": str(SCEN_DENVER / "denver_demo.yaml"),
                  "steps": ctx.pick(120, 1440), "weight": 5, "with_route": False, "with_index": True})
    items.append({"id": "denver_fleets", "kind": "shipped", "scenario": str(SCEN_DENVER / "denver_demo_fleets.yaml"),
                  "steps": ctx.pick(80, 1440), "weight": 5, "with_route": False, "with_index": True})
    files = core.produce(ctx, items)
    tv = core.validate(ctx, files, {"C08"})
    ctx.coverage["traces_validated_against_impl"] = len(ctx.coverage.get("runs", []))
    ctx.coverage["trace_events_validated"] = tv.lines
    ctx.coverage["evaluations"] = done + tv.lines
    ctx.coverage["distinct_nontrivial"] = res.distinct
    ctx.coverage["rule"] = "every reachable index state of the bounded model; each of its transitions executed in the real code"
    ctx.coverage["exhaustive"] = True
    ctx.assumptions += ["h3.h3_to_parent is trusted for the enclosing search cell"]
    for v in tv.viol:
        f = ctx.work / v["file"]
        ctx.violation(v["c"], f"{v['c']}/{v['s']}", witness=v["w"], line=v["line"], file=v["file"], excerpt=core.excerpt(f, v["line"], before=1, maxlen=400))
    for d in tv.divg:
        ctx.divergence(action=d["p"], what=d["c"], detail=d["s"], witness=d["w"], line=d["line"])


def replay(ctx: Ctx, rec: Dict[str, Any]) -> int:
    if "edge" in rec["detail"]:
        replay_edges(ctx, [rec["detail"]["edge"]] if _key(_fix(rec["detail"]["edge"]["s"])) == _key({k: {} for k in KINDS}) else [])
    run(ctx)
    return ctx.finish()
