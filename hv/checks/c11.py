"""C11 - timed inputs take effect exactly once, at the right step.

M: HiveInputs.tla - the one-row-lookahead reader and the admission / expiry / cancellation rules transcribed from
   iterators.py, update_requests_from_file.py and cancel_requests.py, explored exhaustively over all small request files,
   step lengths, start times and timeouts: the pipeline's behaviour equals the declarative rule (AdmitStep / CancelStep).
T: the real UpdateRequestsFromFile / CancelRequests / ChargingPriceUpdate inside Update.apply_update on generated request
   files and price tables (eager and lazy reading); TLC evaluates the declarative rules on every pre-step event against
   tables read from the scenario's own files."""
from __future__ import annotations

from typing import Any, Dict, List

from hv import core, tlc
from hv.common import Ctx, MachineryError
from hv.world import SCEN_DENVER


def run(ctx: Ctx) -> None:
    cfg = ctx.work / "inputs.cfg"
    maxdep, maxdt, maxc, nreq = ctx.pick((5, 3, 3, 3), (7, 4, 4, 3))
    cfg.write_text(f"SPECIFICATION Spec\nCONSTANTS\n  MaxDep = {maxdep}\n  MaxDt = {maxdt}\n  MaxStart = 2\n  MaxCancel = {maxc}\n"
                   f"  NReq = {nreq}\n  NSteps = {maxdep + maxc + 2}\nINVARIANT RuleHolds\nINVARIANT ReaderLosesNothing\nCHECK_DEADLOCK FALSE\n")
    ctx.log("TLC HiveInputs (exhaustive) ...")
    res = tlc.run_tlc("HiveInputs", str(cfg), ctx.work, name="HiveInputs", workers=16, timeout=2400, heap="12g")
    tlc.require_ok(res, allow_violations=True)
    ctx.add_model(res)
    ctx.log(f"HiveInputs: {res.distinct} states, violated={res.violated}")
    if res.violated:
        raise MachineryError(f"HiveInputs violates {res.violated}: the transcription or the declarative rule is wrong")
    items: List[Dict[str, Any]] = []
    base = 1000 * ctx.seed
    for k in range(ctx.pick(48, 600)):
        items.append({"id": f"inputs{base + k}", "kind": "adv", "seed": 300000 + base + k, "steps": ctx.pick(50, 90), "weight": 1,
                      "mix": "builtin", "world_kwargs": {"focus": "inputs"}, "with_route": False})
    for nm, steps in (("denver_demo.yaml", ctx.pick(200, 1440)), ("denver_demo_fleets.yaml", ctx.pick(120, 1440)),
                      ("denver_demo_constrained_charging.yaml", ctx.pick(120, 1440))):
        items.append({"id": nm.replace(".yaml", ""), "kind": "shipped", "scenario": str(SCEN_DENVER / nm), "steps": steps,
                      "weight": 6, "with_route": False})
    files = core.produce(ctx, items)
    tv = core.validate(ctx, files, {"C11"})
    runs = ctx.coverage.get("runs", [])
    ctx.coverage["traces_validated_against_impl"] = len(runs)
    ctx.coverage["trace_events_validated"] = tv.lines
    ctx.coverage["evaluations"] = tv.lines
    ctx.coverage["distinct_nontrivial"] = len({(r.get("dt"), r.get("price_mode"), r.get("lazy")) for r in runs})
    ctx.coverage["rule"] = "distinct (step length, price table mode, lazy/eager reading) classes among the validated runs"
    ctx.coverage["exhaustive"] = True
    ctx.sample({"runs": runs[:3]})
    ctx.assumptions += ["request files sorted by departure time (the documented input contract)",
                        "regions of one price table are disjoint and a station is not named both by id and by region in one window "
                        "(the statement does not say which of two overlapping entries wins)",
                        "h3 decides enclosure of a station by a region, at the region's own resolution"]
    for v in tv.viol:
        f = ctx.work / v["file"]
        ctx.violation(v["c"], f"{v['c']}/{v['s']}", witness=v["w"], line=v["line"], file=v["file"], count=v["n"],
                      excerpt=core.excerpt(f, v["line"], before=0, maxlen=500))
    for d in tv.divg:
        ctx.divergence(action=d["p"], what=d["c"], detail=d["s"], witness=d["w"], line=d["line"])
    # "... never stopping the run": a run the simulator aborted is a violation of that clause
    for c in ctx.coverage.get("crashed_runs", []):
        where = "ChargingPriceUpdate" if "charging_price_update" in c["trace"] else ("UpdateRequests" if "update_requests" in c["trace"] else "other")
        ctx.violation("inputs_never_stop_the_run", f"inputs_never_stop_the_run/{where}/{c['error'].split('(')[0]}", run=c["id"], error=c["error"],
                      trace=c["trace"][-700:])


def replay(ctx: Ctx, rec: Dict[str, Any]) -> int:
    run(ctx)
    return ctx.finish()
