"""C12 - the built-in trip dispatcher returns a valid minimum-cost matching.

M: HiveMatchSelf - the oracle checks itself: MinCost (dynamic programme) equals the brute-force minimum over all injections
   for every small cost matrix.
T: the REAL Dispatcher.generate_instructions is called (once per fleet) on thousands of states taken from generated worlds
   (rectangular problems with ties and co-located entities, charge levels around the range threshold, shifts, fleets,
   several valid_dispatch_states configurations, and states reached while the simulation runs); TLC evaluates
   HiveMatch!DispatchOK on every record."""
from __future__ import annotations

from typing import Any, Dict, List

from hv import core, tlc
from hv.common import Ctx, MachineryError


def run(ctx: Ctx) -> None:
    cfg = ctx.work / "self.cfg"
    n, c = ctx.pick((3, 2), (3, 4))
    cfg.write_text(f"SPECIFICATION SelfSpec\nCONSTANTS\n  MaxN = {n}\n  MaxC = {c}\nINVARIANT DPEqualsBrute\nCHECK_DEADLOCK FALSE\n")
    res = tlc.run_tlc("HiveMatchSelf", str(cfg), ctx.work, name="HiveMatchSelf", workers=16, timeout=2400, heap="12g")
    tlc.require_ok(res, allow_violations=True)
    ctx.add_model(res)
    ctx.log(f"HiveMatchSelf: {res.distinct} matrices, violated={res.violated}")
    if res.violated:
        raise MachineryError("the oracle MinCost disagrees with brute force: the specification is wrong")
    base = 1000 * ctx.seed
    items: List[Dict[str, Any]] = []
    for k in range(ctx.pick(220, 3000)):
        items.append({"id": f"match{base + k}", "kind": "match", "seed": 100000 + base + k, "steps": 5 if k % 3 else 18, "weight": 1})
    for k in range(ctx.pick(30, 300)):
        items.append({"id": f"mdisp{base + k}", "kind": "match", "seed": 150000 + base + k, "steps": 25, "focus": "dispatch", "weight": 3})
    for k in range(ctx.pick(20, 200)):
        items.append({"id": f"mfleet{base + k}", "kind": "match", "seed": 170000 + base + k, "steps": 25, "focus": "fleet", "weight": 3})
    for k in range(ctx.pick(2, 12)):
        items.append({"id": f"mflood{base + k}", "kind": "match", "seed": 190000 + base + k, "steps": 2, "focus": "flood", "weight": 6})
    files = core.produce(ctx, items)
    cfgp = ctx.work / "HiveMatchTrace.cfg"
    cfgp.write_text("SPECIFICATION TraceSpec\nCONSTANTS\n  MaxN = 1\n  MaxC = 1\nPOSTCONDITION Done\nCHECK_DEADLOCK FALSE\n")
    tv = validate_records(ctx, files, str(cfgp))
    runs = ctx.coverage.get("runs", [])
    ctx.coverage["traces_validated_against_impl"] = tv.lines
    ctx.coverage["evaluations"] = tv.lines
    shapes = sorted(c for c in tv.cov if c[0] == "Dispatch")
    ctx.coverage["distinct_nontrivial"] = len([c for c in shapes if not c[1].startswith("0x") and not c[1].endswith("x0")])
    ctx.coverage["rule"] = "distinct (vehicles x requests, fleet / no fleet) problem shapes with at least one vehicle and one request"
    ctx.coverage["exhaustive"] = True
    ctx.sample({"shapes": [list(c) for c in shapes[:12]]})
    ctx.assumptions += ["h3.h3_distance is the grid distance of the statement (trusted)",
                        "eligibility facts are computed by the harness from the state with the real mechatronics' range_remaining_km"]
    for v in tv.viol:
        f = ctx.work / v["file"]
        ctx.violation(v["c"], f"{v['c']}/{v['s']}", witness=v["w"], line=v["line"], file=v["file"], count=v["n"],
                      record=core.excerpt(f, v["line"], before=0, maxlen=1500))
    # ... and inside the step pipeline: the Dispatcher's emissions of whole runs (shift changes, re-dispatch) against the
    # state the generators are handed in that step (HiveTrace!C12_Gen)
    pipe: List[Dict[str, Any]] = []
    for k in range(ctx.pick(16, 160)):
        focus = ["shift", "dispatch", "fleet", None][k % 4]
        pipe.append({"id": f"pipe{base + k}", "kind": "adv", "seed": 180000 + base + k, "steps": 150 if focus == "shift" else 50, "weight": 2,
                     "mix": "builtin", "world_kwargs": {"focus": focus} if focus else {}, "with_route": False})
    pfiles = core.produce(ctx, pipe)
    tvp = core.validate(ctx, pfiles, {"C12"})
    ctx.coverage["pipeline_events_validated"] = tvp.lines
    for v in tvp.viol:
        f = ctx.work / v["file"]
        ctx.violation(v["c"], f"{v['c']}/{v['s']}", witness=v["w"], line=v["line"], file=v["file"], count=v["n"],
                      excerpt=core.excerpt(f, v["line"], before=1, maxlen=600))


def validate_records(ctx: Ctx, files, cfg: str):
    import concurrent.futures as cf
    import json
    from pathlib import Path

    tv = core.TraceVerdict()
    files = [f for f in files if Path(f).stat().st_size > 0]
    with cf.ThreadPoolExecutor(max_workers=12) as ex:
        results = list(ex.map(core._validate_one, [(str(f), cfg, str(ctx.work), "HiveMatchTrace") for f in files]))
    for path, res in results:
        tlc.require_ok(res)
        viol, covr = tlc.printed(res, "VIOL"), tlc.printed(res, "COVR")
        if not viol:
            raise MachineryError(f"no verdict printed for {path}:\n" + "\n".join(res.out.splitlines()[-25:]))
        for v in json.loads(tlc.tla_str_to_py(viol[-1])):
            v["file"] = Path(path).name
            tv.viol.append(v)
        if covr:
            for c in json.loads(tlc.tla_str_to_py(covr[-1])):
                tv.cov.add(tuple(c))
        tv.lines += max(0, res.distinct - 1)
    return tv


def replay(ctx: Ctx, rec: Dict[str, Any]) -> int:
    run(ctx)
    return ctx.finish()
