"""C01 - runs are reproducible across processes and hash seeds.

T: every scenario is executed in SEPARATE processes under different PYTHONHASHSEED values (and one repetition of the
   first seed); per step, the canonical observation of each run (entities whose canonical text changed, the step's
   reports as a sorted bag, per-run random tags removed, members of set-valued fields sorted) and the final summary are
   compared in lock step by TLC (HiveAgree!Agree).  Scenarios: shipped Denver scenarios (OSM network, two fleets with
   shared vehicles, constrained charging) and generated worlds built to be order sensitive (ties everywhere)."""
from __future__ import annotations

from typing import Any, Dict, List

from hv import agree, core
from hv.checks.c13 import validate_with
from hv.common import Ctx, MachineryError
from hv.world import SCEN_DENVER


def scenarios(ctx: Ctx) -> List[Dict[str, Any]]:
    base = 1000 * ctx.seed
    sc: List[Dict[str, Any]] = []
    for nm, steps in (("denver_demo.yaml", ctx.pick(150, 1440)), ("denver_demo_fleets.yaml", ctx.pick(200, 1440)),
                      ("denver_demo_constrained_charging.yaml", ctx.pick(150, 1440))):
        sc.append({"id": nm.replace(".yaml", ""), "src": "shipped", "scenario": str(SCEN_DENVER / nm), "steps": steps})
    for k in range(ctx.pick(10, 60)):
        sc.append({"id": f"ties{base + k}", "src": "gen", "seed": 41000 + base + k, "steps": ctx.pick(60, 120),
                   "world_kwargs": {"focus": "ties"}, "mix": "builtin"})
        if k % 2 == 1:
            sc[-1]["dispatcher"] = {"charging_search_type": "shortest_time_to_charge"}      # the other station / plug ranking
    for k in range(ctx.pick(6, 40)):
        sc.append({"id": f"adv{base + k}", "src": "gen", "seed": 42000 + base + k, "steps": 50, "world_kwargs": {"fleets": True},
                   "mix": ["builtin+adv", "adv+builtin"][k % 2]})
    for k in range(ctx.pick(6, 40)):
        # several fleets, every station owned by one of them, many vehicles reaching the charging threshold together - some with
        # nowhere to charge: whom the charging manager serves must not depend on the order of a hash map
        sc.append({"id": f"fleetlow{base + k}", "src": "gen", "seed": 45000 + base + k, "steps": 40,
                   "world_kwargs": {"focus": "fleet", "variant": "lowcharge"}, "mix": "builtin"})
    for k in range(ctx.pick(4, 30)):
        sc.append({"id": f"queue{base + k}", "src": "gen", "seed": 43000 + base + k, "steps": 70, "world_kwargs": {"focus": "queue"},
                   "mix": "adv"})
    for k in range(ctx.pick(10, 60)):
        # vehicles that join a queue in the same step (same enqueue time): the tie must be broken the same way everywhere
        sc.append({"id": f"queued{base + k}", "src": "gen", "seed": 44000 + base + k, "steps": 90, "world_kwargs": {"focus": "queue"},
                   "mix": "queue"})
    # the same scenarios once more with the instruction generators taken out and put back through the co-simulation API
    # after the second step (runner_payload_ops.get/update_instruction_generator)
    for s in list(sc):
        if s["src"] == "shipped" or s["id"].startswith(("ties", "adv")):
            sc.append(dict(s, id=s["id"] + "_api", api_touch=True, split=[2, s["steps"] - 2]))
    return sc


def run(ctx: Ctx) -> None:
    sc = scenarios(ctx)
    seeds = ctx.pick(["0", "3", "5", "0"], ["0", "1", "2", "3", "4", "5", "6", "7", "0"])
    labels = [f"hashseed{h}" + ("" if k < len(seeds) - 1 else "_repeat") for k, h in enumerate(seeds)]
    groups = []
    # one process per (hash seed, slice of scenarios)
    nslice = ctx.pick(4, 2)
    for h, lab in zip(seeds, labels):
        for part in range(nslice):
            jobs = [dict(s, label=lab) for k, s in enumerate(sc) if k % nslice == part]
            if not jobs:
                continue
            if lab.endswith("_repeat"):
                # the repetition runs IN THE SAME PROCESS as the first run with that hash seed, after it: whatever a process
                # remembers of an earlier run of the scenario must not show in the next one
                first = next(g for g in groups if g[0] == h and g[1][0]["label"] == labels[0] and g[1][0]["id"] == jobs[0]["id"])
                first[1].extend(jobs)
            else:
                groups.append((h, jobs))
    ctx.log(f"{len(sc)} scenarios x {len(seeds)} processes ...")
    res = agree.run_workers(ctx, groups)
    log = ctx.work / "agree_c01.ndjson"
    if log.exists():
        log.unlink()
    nlines = 0
    compared = 0
    for s in sc:
        runs = [res[s["id"] + "|" + lab] for lab in labels]
        errs = [r for r in runs if "error" in r]
        if errs:
            if len(errs) == len(runs) and len({r["error"] for r in errs}) == 1:
                ctx.notes.append(f"scenario {s['id']} raises {errs[0]['error']} in every process (same failure everywhere)")
                continue
            ctx.violation("same_states_every_step", "crash_in_some_processes_only", scenario=s["id"],
                          errors=[(r["label"], r["error"]) for r in errs])
            continue
        nlines += agree.merge(log, s["id"], runs, "C01", "same_states_every_step")
        compared += 1
    cfg = ctx.work / "HiveAgree.cfg"
    cfg.write_text("SPECIFICATION TraceSpec\nPOSTCONDITION Done\nCHECK_DEADLOCK FALSE\n")
    tv = validate_with(ctx, [log] if nlines else [], str(cfg), "HiveAgree")
    ctx.coverage["traces_validated_against_impl"] = compared * len(seeds)
    ctx.coverage["states"] = max(1, tv.lines)
    ctx.coverage["transitions"] = max(1, tv.lines)
    ctx.coverage["evaluations"] = tv.lines
    ctx.coverage["distinct_nontrivial"] = compared
    ctx.coverage["rule"] = "scenarios compared in lock step across separate processes with different PYTHONHASHSEED"
    ctx.coverage["hash_seeds"] = seeds
    ctx.sample({"scenarios": [s["id"] for s in sc][:8]})
    ctx.level = "model_checking"
    ctx.notes.append("TLC acts as the lock-step comparator of recorded behaviours here; a NEW unordered iteration is only found "
                     "if one of the scenarios exercises it (DESIGN 6, honest note)")
    import json

    for v in tv.viol:
        rec = json.loads(core.excerpt(log, v["line"], before=0, maxlen=10 ** 7)[0].split(": ", 1)[1])
        other = v["w"].split(":")[0]
        j = rec["labels"].index(other) if other in rec["labels"] else 1
        ent = v["w"].split(":", 1)[1] if ":" in v["w"] else ""
        a = dict(map(tuple, rec["vals"][0]["state"])).get(ent)
        b = dict(map(tuple, rec["vals"][j]["state"])).get(ent)
        ctx.violation(v["c"], f"{v['c']}/{_site(rec['scen'])}", scenario=rec["scen"], step=rec["i"], kind=rec["k"], run=other, entity=ent,
                      first_run=(a or "")[:600], other_run=(b or "")[:600], count=v["n"])


def _site(scen: str) -> str:
    return "".join(c for c in scen if not c.isdigit())


def replay(ctx: Ctx, rec: Dict[str, Any]) -> int:
    run(ctx)
    return ctx.finish()
