"""Specification -> implementation: behaviours of the bounded model are exported as controller/environment
schedules, concretised (hv/mcworlds.py) and executed in the real code; the recorded runs go through the same
monitor + conformance check as every other trace.  Two sources of behaviours:
  * TLC simulation mode on the faithful constants (MC_sim): random deep behaviours;
  * counterexamples TLC finds in the exhaustive configurations (a model-level violation is only believed when the
    real code reproduces it)."""
from __future__ import annotations

import json
import re
from pathlib import Path
from typing import Any, Dict, List, Optional

from hv import core, mcworlds, tlc
from hv.common import Ctx, MachineryError


def _hist(raw: str) -> List[Dict[str, Any]]:
    h = json.loads(tlc.tla_str_to_py(raw))
    if isinstance(h, dict):
        h = [h[k] for k in sorted(h, key=int)]
    return h


def generate_behaviours(ctx: Ctx, n: int, depth: int) -> List[List[Dict[str, Any]]]:
    mcworlds.ensure_modules()
    cfg = core.model_cfg("MC_sim", max_e=3, max_t=depth, move_costs=(0, 1), idle_costs=(0,), bogus=["r?", "s?", "b?"],
                         record=True, extra=[f"  SimDepth = {depth}", "CONSTRAINT mcExport"])
    p = ctx.work / "MC_sim.cfg"
    p.write_text(cfg)
    res = tlc.run_tlc("MC_sim", str(p), ctx.work, name="MC_sim(simulate)", workers=1, simulate=f"num={n}", depth=depth,
                      seed=ctx.seed + 11, timeout=900, heap="4g")
    if res.timed_out or (res.errors and not res.violated):
        raise MachineryError("simulation of MC_sim failed:\n" + "\n".join(res.out.splitlines()[-25:]))
    behs: Dict[str, List[Dict[str, Any]]] = {}
    for raw in tlc.printed(res, "BEH"):
        h = _hist(raw)
        # TLC evaluates the export constraint on every successor generated at the depth bound: the printed
        # histories of one behaviour differ only in their last choices; keep one per common prefix
        key = json.dumps(h[: max(1, len(h) - 3)], sort_keys=True)
        if key not in behs or len(behs[key]) < len(h):
            behs[key] = h
    ctx.coverage.setdefault("model_generated", {})["behaviours_exported"] = len(behs)
    ctx.coverage["states"] += res.distinct
    ctx.coverage["transitions"] += res.generated
    return list(behs.values())


def schedules_to_traces(ctx: Ctx, n: int, depth: int) -> List[Path]:
    behs = generate_behaviours(ctx, n, depth)
    items = []
    for k, beh in enumerate(behs):
        c = mcworlds.concretise("sim", beh, f"model{k}", 3)
        if not c["schedule"]:
            continue
        items.append({"id": f"model{k}", "kind": "model", "spec": c, "weight": 1})
    ctx.coverage.setdefault("model_generated", {})["schedules_executed"] = len(items)
    if items:
        ctx.sample({"model_generated_schedule": {"admit": [r["id"] for r in items[0]["spec"]["world"]["requests"]],
                                                 "instructions": {k: v for k, v in list(items[0]["spec"]["schedule"].items())[:2]}}})
    return core.produce(ctx, items)


_ALIAS = re.compile(r'hist_json = "((?:[^"\\]|\\.)*)"')


def counterexample_trace(ctx: Ctx, world_name: str, cfg_kwargs: Dict[str, Any], invariants, properties, tag: str) -> Optional[Path]:
    """re-run a violated configuration with history recording, take the counterexample's controller choices,
    execute them in the real code and return the recorded trace"""
    module = f"MC_{world_name}"
    cfg = core.model_cfg(module, invariants=invariants, properties=properties, record=True,
                         extra=["ALIAS mcHistAlias", "VIEW mcView"], **cfg_kwargs)
    p = ctx.work / f"{module}-cex-{tag}.cfg"
    p.write_text(cfg)
    res = tlc.run_tlc(module, str(p), ctx.work, name=f"{module}(counterexample)", workers=16, timeout=1500, heap="12g")
    if not res.violated:
        return None
    hs = _ALIAS.findall(res.out)
    if not hs:
        raise MachineryError("counterexample printed no history:\n" + "\n".join(res.out.splitlines()[-30:]))
    beh = _hist('"' + hs[-1] + '"')
    c = mcworlds.concretise(world_name, beh, f"cex_{world_name}_{tag}", cfg_kwargs["max_e"])
    ctx.coverage.setdefault("model_generated", {}).setdefault("counterexamples_concretised", []).append(
        {"config": module, "violated": res.violated, "choices": beh})
    files = core.produce(ctx, [{"id": f"cex_{world_name}_{tag}", "kind": "model", "spec": c, "weight": 1}])
    return files[0] if files else None
