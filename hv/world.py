"""Building real hive simulations: shipped scenarios (with the networkx>=3.4 loader fix) and generated worlds
written as ordinary scenario directories and loaded through the real load_simulation()."""
from __future__ import annotations

import json
import math
import shutil
from pathlib import Path
from typing import Any, Dict, Iterable, List, Optional, Sequence, Tuple

import yaml

import os

_REPO = Path(os.environ.get("HIVE_REPO", "/repo"))
SCEN_DENVER = _REPO / "nrel/hive/resources/scenarios/denver_downtown"
SCEN_MANHATTAN = _REPO / "nrel/hive/resources/scenarios/manhattan"

# centre of the generated worlds (downtown Denver, inside the shipped OSM graph)
LAT0, LON0 = 39.7500, -104.9900
M_PER_DEG_LAT = 111_320.0
M_PER_DEG_LON = 111_320.0 * math.cos(math.radians(LAT0))


def at(x_m: float, y_m: float) -> Tuple[float, float]:
    """(lat, lon) of the point x metres east and y metres north of the centre"""
    return (LAT0 + y_m / M_PER_DEG_LAT, LON0 + x_m / M_PER_DEG_LON)


def networkx_shim() -> None:
    """the shipped OSM json files name their edge list "links"; the installed networkx expects "edges" unless told
    otherwise, so hive's own `OSMRoadNetwork.from_file` cannot read them here.  The shim only adds `edges="links"` to
    `networkx.node_link_graph` when the data says so - everything else (osm_init_function, from_file, the network
    constructor) is the real code."""
    import networkx as nx

    if getattr(nx.node_link_graph, "_hv_shim", False):
        return
    orig = nx.node_link_graph

    def node_link_graph(data, *a, **k):
        if "edges" not in k and isinstance(data, dict) and "links" in data and "edges" not in data:
            try:
                return orig(data, *a, edges="links", **k)
            except TypeError:
                pass
        return orig(data, *a, **k)

    node_link_graph._hv_shim = True
    nx.node_link_graph = node_link_graph


def osm_init_fixed(config, simulation_state, environment):
    """the real OSMRoadNetwork on the shipped graph; only the json loading call differs (edges="links")"""
    import networkx as nx
    from nrel.hive.model.roadnetwork.osm.osm_roadnetwork import OSMRoadNetwork

    with open(config.input_config.road_network_file) as f:
        data = json.load(f)
    try:
        graph = nx.node_link_graph(data, edges="links")
    except TypeError:
        graph = nx.node_link_graph(data)
    rn = OSMRoadNetwork(graph, config.sim.sim_h3_resolution, config.network.default_speed_kmph)
    return simulation_state._replace(road_network=rn), environment


def load(
    scenario: Path,
    out_dir: Path,
    *,
    igens: Optional[Sequence[Any]] = None,
    write_outputs: bool = False,
    time_step_stats: bool = False,
    keep_existing: bool = False,
    sim_overrides: Optional[Dict[str, Any]] = None,
    dispatcher_overrides: Optional[Dict[str, Any]] = None,
    lazy: bool = False,
    suffix: str = "run",
):
    """load a scenario through the real loader; outputs (if any) go below out_dir"""
    import logging

    from nrel.hive.initialization.initialize_simulation import default_init_functions
    from nrel.hive.initialization.load import load_config, load_simulation
    from nrel.hive.model.sim_time import SimTime

    logging.disable(logging.CRITICAL)
    config = load_config(str(scenario), suffix)
    gc = config.global_config._replace(
        output_base_directory=str(out_dir),
        log_run=False,
        log_states=False,
        log_events=write_outputs,
        log_instructions=False,
        log_kepler=False,
        log_stats=True,
        log_station_capacities=False,
        log_time_step_stats=time_step_stats,
        log_fleet_time_step_stats=time_step_stats,
        lazy_file_reading=lazy,
        verbose=False,
    )
    if os.environ.get("HV_TRIM_LOG") == "1":
        # a user who does not want charge / load events in the event log (a pure logging choice)
        from nrel.hive.reporting.report_type import ReportType

        gc = gc._replace(log_sim_config=frozenset(t for t in gc.log_sim_config
                                                  if t not in (ReportType.VEHICLE_CHARGE_EVENT, ReportType.STATION_LOAD_EVENT)))
    sim_cfg = config.sim
    if sim_overrides:
        so = dict(sim_overrides)
        for k in ("start_time", "end_time"):
            if k in so:
                so[k] = SimTime.build(so[k]) if not isinstance(so[k], SimTime) else so[k]
        sim_cfg = sim_cfg._replace(**so)
    disp = config.dispatcher
    if dispatcher_overrides:
        disp = disp._replace(**dispatcher_overrides)
    out = Path(out_dir) / f"{sim_cfg.sim_name}_{suffix}"
    if out.exists() and not keep_existing:      # keep_existing: a user who names an output directory that is already there
        shutil.rmtree(out)
    out.parent.mkdir(parents=True, exist_ok=True)
    config = config._replace(global_config=gc, sim=sim_cfg, dispatcher=disp, scenario_output_directory=out)
    networkx_shim()
    rp = load_simulation(config, tuple(igens) if igens is not None else None, None)
    # as hive_cosim.load_scenario does: the handler through which a co-simulation user reads the charge events
    from nrel.hive.reporting.handler.vehicle_charge_events_handler import VehicleChargeEventsHandler

    rp.e.reporter.add_handler(VehicleChargeEventsHandler())
    return rp


# ---------------------------------------------------------------------------------------------
# generated worlds


def write_world(d: Path, w: Dict[str, Any]) -> Path:
    """write a world description as a hive scenario directory; returns the scenario yaml path"""
    d = Path(d)
    if d.exists():
        shutil.rmtree(d)
    for sub in ("vehicles", "requests", "stations", "bases", "fleets", "charging_prices", "service_prices",
                "schedules", "chargers", "mechatronics", "road_network"):
        (d / sub).mkdir(parents=True, exist_ok=True)

    def csv(path: Path, header: List[str], rows: Iterable[Sequence[Any]]):
        with path.open("w") as f:
            f.write(",".join(header) + "\n")
            for r in rows:
                f.write(",".join("" if x is None else str(x) for x in r) + "\n")

    seats = any("seats" in v for v in w["vehicles"])       # the optional available_seats column (small cars, parties of two)
    csv(
        d / "vehicles" / "vehicles.csv",
        ["vehicle_id", "lat", "lon", "mechatronics_id", "initial_soc", "schedule_id", "home_base_id"] + (["available_seats"] if seats else []),
        [
            (v["id"], f"{v['lat']:.7f}", f"{v['lon']:.7f}", v.get("mech", "leaf_50"), v.get("soc", 0.8),
             v.get("schedule") or "", v.get("home_base") or "") + ((v.get("seats", 4),) if seats else ())
            for v in w["vehicles"]
        ],
    )
    has_fleets = bool(w.get("fleets"))
    rhead = ["request_id", "o_lat", "o_lon", "d_lat", "d_lon", "departure_time", "passengers"]
    fleet_col = has_fleets or any(r.get("fleet") for r in w["requests"])
    if fleet_col:
        rhead.append("fleet_id")
    has_pool = any(r.get("pool") for r in w["requests"])
    if has_pool:
        rhead.append("allows_pooling")
    rows = []

    def stamp(t, k):
        if not w.get("iso_times") or k % 3 == 2:
            return t
        import datetime as _dt

        return _dt.datetime.utcfromtimestamp(int(t)).isoformat() + [".600000", ".500000", ".999999", ".25"][k % 4]

    for k_r, r in enumerate(w["requests"]):
        row = [r["id"], "" if r.get("malformed") else f"{r['o'][0]:.7f}", f"{r['o'][1]:.7f}", f"{r['d'][0]:.7f}", f"{r['d'][1]:.7f}",
               stamp(r["dep"], k_r), r.get("pax", 1)]
        if fleet_col:
            row.append(r.get("fleet") or "")
        if has_pool:
            row.append("true" if r.get("pool") else "")     # hive reads bool(<text>): empty = False
        rows.append(row)
    csv(d / "requests" / "requests.csv", rhead, rows)
    srows = []
    for s in w["stations"]:
        for (cid, cnt, on_shift) in s["plugs"]:
            if w.get("split_rows") and cnt >= 2:
                # the plugs of one type listed on two rows of the file (a supported layout: the counts add up)
                srows.append((s["id"], f"{s['lat']:.7f}", f"{s['lon']:.7f}", 1, cid, "true" if on_shift else "false"))
                cnt -= 1
            srows.append((s["id"], f"{s['lat']:.7f}", f"{s['lon']:.7f}", cnt, cid, "true" if on_shift else "false"))
    csv(d / "stations" / "stations.csv", ["station_id", "lat", "lon", "charger_count", "charger_id", "on_shift_access"], srows)
    csv(
        d / "bases" / "bases.csv",
        ["base_id", "lat", "lon", "station_id", "stall_count"],
        [(b["id"], f"{b['lat']:.7f}", f"{b['lon']:.7f}", b.get("station") or "", b.get("stalls", 1)) for b in w["bases"]],
    )
    inp: Dict[str, Any] = {
        "vehicles_file": "vehicles.csv",
        "requests_file": "requests.csv",
        "stations_file": "stations.csv",
        "bases_file": "bases.csv",
    }
    if has_fleets:
        (d / "fleets" / "fleets.yaml").write_text(yaml.safe_dump(w["fleets"]))
        inp["fleets_file"] = "fleets.yaml"
    if w.get("prices") is not None:
        key = w.get("price_key", "station_id")
        csv(
            d / "charging_prices" / "prices.csv",
            ["time", key, "charger_id", "price_kwh"],
            [(stamp(p["time"], k_p), p["target"], p["charger_id"], p["price"]) for k_p, p in enumerate(w["prices"])],
        )
        inp["charging_price_file"] = "prices.csv"
    if w.get("rate") is not None:
        csv(d / "service_prices" / "rate.csv", ["base_price", "price_per_mile", "minimum_price"], [w["rate"]])
        inp["rate_structure_file"] = "rate.csv"
    if w.get("schedules"):
        csv(d / "schedules" / "schedules.csv", ["schedule_id", "start_time", "end_time"],
            [(i, f'"{a}"', f'"{b}"') for (i, a, b) in w["schedules"]])
        inp["schedules_file"] = "schedules.csv"
    if w.get("chargers"):
        csv(d / "chargers" / "chargers.csv", ["charger_id", "energy_type", "rate", "units"], w["chargers"])
        inp["chargers_file"] = "chargers.csv"
    if w.get("mechatronics"):
        (d / "mechatronics" / "mech.yaml").write_text(yaml.safe_dump(w["mechatronics"]))
        inp["mechatronics_file"] = "mech.yaml"
    for rel, content in (w.get("extra_files") or {}).items():       # e.g. a power curve of the scenario's own
        (d / rel).parent.mkdir(parents=True, exist_ok=True)
        (d / rel).write_text(content if isinstance(content, str) else yaml.safe_dump(content))
    net: Dict[str, Any] = {"network_type": "euclidean"}
    if w.get("osm"):
        net = {"network_type": "osm_network"}
        src = w["osm"] if isinstance(w["osm"], (str, Path)) else None
        if src:
            shutil.copy(str(src), d / "road_network" / "network.json")
        else:
            (d / "road_network" / "network.json").write_text(json.dumps(w["osm"]))
        inp["road_network_file"] = "network.json"
        if w.get("default_speed_kmph"):
            net["default_speed_kmph"] = w["default_speed_kmph"]
    sim = {
        "sim_name": w.get("name", "gen"),
        "timestep_duration_seconds": w.get("dt", 60),
        "request_cancel_time_seconds": w.get("cancel", 600),
        "start_time": w.get("start", 0),
        "end_time": w.get("end", 86400),
    }
    if "search_res" in w:
        sim["sim_h3_search_resolution"] = w["search_res"]
    disp = {"valid_dispatch_states": ["Idle", "Repositioning"]}
    disp.update(w.get("dispatcher", {}))
    scen = {"sim": sim, "network": net, "input": inp, "dispatcher": disp}
    path = d / "scenario.yaml"
    path.write_text(yaml.safe_dump(scen, sort_keys=False))
    return path
