"""Shared plumbing: paths, run context, evidence files, known findings, violation reporting."""
from __future__ import annotations

import hashlib
import json
import os
import shutil
import sys
import time
from pathlib import Path
from typing import Any, Dict, List, Optional

ROOT = Path(__file__).resolve().parent.parent
SPEC = ROOT / "spec"
EVIDENCE = ROOT / "evidence"
REPLAYS = ROOT / "replays"
WORK = ROOT / ".work"
# the tree under test: /repo, unless a development run points the harness at a scratch worktree
REPO = Path(os.environ.get("HIVE_REPO", "/repo"))
if REPO.resolve() != Path("/repo"):
    # development runs against a scratch tree (tools/seedtest.sh) never touch the committed evidence / replays
    EVIDENCE = Path("/tmp/hv-scratch") / "evidence"
    REPLAYS = Path("/tmp/hv-scratch") / "replays"
FINDINGS_FILE = ROOT / "known_findings.json"

EXIT_OK, EXIT_VIOLATION, EXIT_MACHINERY = 0, 1, 2


class MachineryError(Exception):
    """the verification machinery itself failed (TLC crash, parse error, vacuous coverage, ...)"""


def load_findings() -> List[Dict[str, Any]]:
    if not FINDINGS_FILE.exists():
        return []
    data = json.loads(FINDINGS_FILE.read_text())
    return data.get("findings", [])


class Violation:
    """one violated clause, observed on the real code (or concretised from the model)"""

    def __init__(self, prop: str, clause: str, signature: str, detail: Dict[str, Any]):
        self.prop = prop
        self.clause = clause
        # the signature names the specific failing call site / input class; known findings match on it
        self.signature = signature
        self.detail = detail

    def key(self) -> str:
        return f"{self.prop}.{self.clause}/{self.signature}"


class Ctx:
    """one run of one property check"""

    def __init__(self, prop: str, tier: str, seed: int):
        self.prop = prop
        self.tier = tier
        self.seed = seed
        self.t0 = time.time()
        self.work = WORK / f"{prop}-{tier}-{os.getpid()}"
        if self.work.exists():
            shutil.rmtree(self.work, ignore_errors=True)
        self.work.mkdir(parents=True, exist_ok=True)
        self.violations: List[Violation] = []
        self.divergences: List[Dict[str, Any]] = []
        self.coverage: Dict[str, Any] = {
            "states": 0,
            "transitions": 0,
            "traces_validated_against_impl": 0,
            "samples": [],
        }
        self.assumptions: List[str] = []
        self.notes: List[str] = []
        self.level = "model_checking"

    @property
    def quick(self) -> bool:
        return self.tier == "quick"

    def pick(self, quick, thorough):
        return quick if self.quick else thorough

    def log(self, msg: str) -> None:
        print(f"[{self.prop} {time.time() - self.t0:6.1f}s] {msg}", flush=True)

    def add_model(self, res: "Any") -> None:
        """account for one TLC model-checking run"""
        self.coverage["states"] += res.distinct
        self.coverage["transitions"] += res.generated
        self.coverage.setdefault("model_runs", []).append(res.summary())

    def sample(self, s: Any, cap: int = 6) -> None:
        if len(self.coverage["samples"]) < cap:
            self.coverage["samples"].append(s)

    def violation(self, clause: str, signature: str, **detail: Any) -> None:
        self.violations.append(Violation(self.prop, clause, signature, detail))

    def divergence(self, **detail: Any) -> None:
        self.divergences.append(detail)

    # ------------------------------------------------------------------
    def finish(self) -> int:
        """print verdict lines, write evidence, clean up; returns the exit code"""
        findings = [f for f in load_findings() if f.get("property") == self.prop and f.get("status") == "open"]
        known_hit: Dict[str, Dict[str, Any]] = {}
        new: Dict[str, Violation] = {}
        for v in self.violations:
            matched = None
            for f in findings:
                if f.get("clause") == v.clause and _sig_match(f.get("signature", ""), v.signature):
                    matched = f
                    break
            if matched is not None:
                known_hit.setdefault(matched["id"], matched)
            else:
                new.setdefault(v.key(), v)
        for f in known_hit.values():
            print(f"KNOWN-FINDING: property={self.prop} {f['id']} {f['what']}", flush=True)
        REPLAYS.mkdir(parents=True, exist_ok=True)
        for v in new.values():
            h = hashlib.sha1(json.dumps([v.key(), v.detail], sort_keys=True, default=str).encode()).hexdigest()[:10]
            path = REPLAYS / f"{self.prop}-{h}.json"
            path.write_text(
                json.dumps(
                    {"property": self.prop, "clause": v.clause, "signature": v.signature, "seed": self.seed,
                     "tier": self.tier, "detail": v.detail},
                    indent=1, default=str,
                )
            )
            print(f"VIOLATION property={self.prop} replay={path} clause={v.clause} signature={v.signature}", flush=True)
        for d in self.divergences[:10]:
            print(f"DIVERGENCE property={self.prop} {json.dumps(d, default=str)[:400]}", flush=True)

        cov = dict(self.coverage)
        cov["conformance_divergences"] = len(self.divergences)
        if self.divergences:
            cov["divergence_samples"] = self.divergences[:5]
        cov["known_findings_reproduced"] = sorted(known_hit.keys())
        if self.notes:
            cov["notes"] = self.notes
        if not cov.get("samples"):
            cov["samples"] = ["(no sample recorded)"]
        ev = {
            "property_id": self.prop,
            "tier": self.tier,
            "seed": self.seed,
            "level": self.level,
            "coverage": cov,
            "assumptions": self.assumptions,
            "wall_s": round(time.time() - self.t0, 2),
            "violations": len(new),
        }
        if not getattr(self, "replay_mode", False):       # a replay re-examines one finding; it is not the check's evidence
            EVIDENCE.mkdir(parents=True, exist_ok=True)
            (EVIDENCE / f"{self.prop}.json").write_text(json.dumps(ev, indent=1, default=str) + "\n")
        shutil.rmtree(self.work, ignore_errors=True)
        try:
            if WORK.exists() and not any(WORK.iterdir()):
                WORK.rmdir()
        except OSError:
            pass
        self.log(
            f"done: states={cov['states']} transitions={cov['transitions']} traces={cov['traces_validated_against_impl']} "
            f"violations={len(new)} known={len(known_hit)} divergences={len(self.divergences)}"
        )
        return EXIT_VIOLATION if new else EXIT_OK


def _sig_match(pattern: str, signature: str) -> bool:
    """a finding's signature is a '/'-separated list of tokens that must all occur in the violation's signature"""
    toks = [t for t in pattern.split("/") if t]
    have = set(signature.split("/"))
    return all(t in have for t in toks)
