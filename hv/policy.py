"""Facts for spec/HiveControl.tla: what the built-in drivers and the charging fleet manager decided, and the facts of
each vehicle the decision depends on.  The leaves (state of charge, remaining range, distances, charger validity, h3
grid distance) come from the code's own functions; the decision itself is made by the specification.

One ndjson line per time step, written from the `instruction_stacks` hook (the state the generators and drivers saw):
  {"t": time, "drivers": [ {v, drv, act, <facts>, obs:{k,tgt,plug}} ... ],
   "cfm": {present, complete, emitted:[v...], veh:[{v, proper, le_soft, near_ok, le_hard, reach}]}}
"""
from __future__ import annotations

import json
import math
from pathlib import Path
from typing import Any, Dict, List, Optional

NOI = {"k": "", "tgt": "", "plug": ""}


def _hav_m(a, b) -> float:
    import h3

    (la1, lo1), (la2, lo2) = h3.h3_to_geo(a), h3.h3_to_geo(b)
    p1, p2 = math.radians(la1), math.radians(la2)
    dp, dl = p2 - p1, math.radians(lo2 - lo1)
    x = math.sin(dp / 2) ** 2 + math.cos(p1) * math.cos(p2) * math.sin(dl / 2) ** 2
    return 2 * 6371008.8 * math.asin(min(1.0, math.sqrt(x)))


def _ranks(values) -> Dict[Any, int]:
    return {v: i + 1 for i, v in enumerate(sorted(set(values)))}


def _plugs(pairs, mech) -> List[Dict[str, Any]]:
    """pairs: [(plug id, charger object)] -> [{id, rr, ir, valid}]"""
    rr = _ranks(c.rate for _, c in pairs)
    ir = _ranks(p for p, _ in pairs)
    return sorted(({"id": p, "rr": rr[c.rate], "ir": ir[p], "valid": bool(mech.valid_charger(c))} for p, c in pairs),
                  key=lambda x: x["ir"])


def _max_k(sim, env) -> int:
    import h3

    k_dist_km = h3.edge_length(sim.sim_h3_search_resolution, unit="km") * 2
    return math.ceil(env.config.dispatcher.max_search_radius_km / k_dist_km)


def _disk(sim, origin, geoid) -> int:
    import h3

    res = sim.sim_h3_search_resolution
    try:
        return h3.h3_distance(h3.h3_to_parent(origin, res), h3.h3_to_parent(geoid, res))
    except Exception:
        return 10 ** 6


def station_choice_facts(veh, origin_geoid, sim, env) -> List[Dict[str, Any]]:
    """the candidates of the NEAREST_SHORTEST_QUEUE station search for this vehicle from this origin: every station it may
    use that has an on-shift plug it can use (with at least one installed), with the search disk it lies in (h3 grid
    distance of the search cells), the order in which the ring search meets it, and for every such plug the metric
    grid distance * (1 + waiting / installed) as the exact fraction num / den"""
    import h3

    mech = env.mechatronics.get(veh.mechatronics_id)
    max_k = _max_k(sim, env)
    res = sim.sim_h3_search_resolution
    search = h3.h3_to_parent(origin_geoid, res)
    cands = []
    for s in sim.get_stations():
        if not s.membership.grant_access_to_membership(veh.membership):
            continue
        k = _disk(sim, origin_geoid, s.geoid)
        if k > max_k:
            continue
        try:
            d = int(h3.h3_distance(origin_geoid, s.geoid))
        except Exception:
            continue
        plugs = []
        ids = sorted(s.on_shift_access_chargers)
        for n, cid in enumerate(ids):
            c = env.chargers.get(cid)
            tot = s.get_total_chargers(cid) or 0
            if c is None or not mech.valid_charger(c) or tot <= 0:
                continue
            enq = s.enqueued_vehicle_count_for_charger(cid) or 0
            plugs.append({"id": cid, "ir": n + 1, "num": d * (tot + enq), "den": tot})
        if plugs:
            cands.append({"id": s.id, "k": k, "ord": 0, "plugs": plugs, "geoid": s.geoid})
    # the order in which the ring search meets the stations of a disk: cells in sorted order, stations of a cell by id
    for c in cands:
        cells = sorted(h3.k_ring(search, c["k"]))
        cell = h3.h3_to_parent(c["geoid"], res)
        c["ord"] = cells.index(cell) * 10000 + sorted(x["id"] for x in cands if h3.h3_to_parent(x["geoid"], res) == cell).index(c["id"]) if cell in cells else 0
    for c in cands:
        del c["geoid"]
    return cands


def driver_facts(veh, sim, env) -> Optional[Dict[str, Any]]:
    from nrel.hive.model.energy.energytype import EnergyType

    ds = veh.driver_state
    drv = {"AutonomousAvailable": "auto", "HumanAvailable": "avail", "HumanUnavailable": "unavail"}.get(type(ds).__name__)
    mech = env.mechatronics.get(veh.mechatronics_id)
    if drv is None or mech is None:
        return None
    cfg = env.config.dispatcher
    st = veh.vehicle_state
    act = type(st).__name__
    rng = mech.range_remaining_km(veh)
    f: Dict[str, Any] = {
        "v": veh.id, "drv": drv, "act": act,
        "idle_over": bool(act == "Idle" and st.idle_duration > cfg.idle_time_out_seconds),
        "soc_lim": bool(mech.fuel_source_soc(veh) >= cfg.ideal_fastcharge_soc_limit),
        "full": bool(mech.is_full(veh)),
        "sbase": "", "sbase_ok": False, "sbase_st": "", "sbase_st_ok": False, "sbase_plugs": [],
        "home": "", "home_ok": False, "at_home": False, "home_st": "", "home_st_ok": False, "home_plugs": [],
        "below_target": False, "range_zero": not rng, "cant_home": False,
        "electric": EnergyType.ELECTRIC in veh.energy,
        "bases_any": [], "bases_near": [], "bases_must": False,
        "stations": [], "stations_must": False, "hexes": [],
    }
    # the base the vehicle is waiting at (autonomous policy)
    if act in ("ReserveBase", "ChargingBase"):
        f["sbase"] = st.base_id
        b = sim.bases.get(st.base_id)
        if b is not None:
            f["sbase_ok"] = True
            f["sbase_st"] = b.station_id or ""
            s = sim.stations.get(b.station_id) if b.station_id else None
            if s is not None:
                f["sbase_st_ok"] = True
                # av_charge_base_instruction ranks the chargers as the STATION holds them (co-simulation may have
                # changed their rate)
                f["sbase_plugs"] = _plugs([(cs.id, cs.charger) for cs in s.state.values()], mech)
    # home (human drivers)
    home_id = getattr(ds, "home_base_id", None)
    if home_id:
        f["home"] = home_id
        hb = sim.bases.get(home_id)
        if hb is not None:
            f["home_ok"] = True
            f["at_home"] = hb.geoid == veh.geoid
            f["home_st"] = hb.station_id or ""
            hs = sim.stations.get(hb.station_id) if hb.station_id else None
            if hs is not None:
                f["home_st_ok"] = True
                # human_charge_at_home ranks the chargers as the ENVIRONMENT defines them
                f["home_plugs"] = _plugs([(cid, env.chargers[cid]) for cid in hs.state.keys()], mech)
            f["cant_home"] = bool(sim.road_network.distance_by_geoid_km(veh.geoid, hb.geoid) >= rng)
    if drv == "unavail":
        tgt = ds.charge_params.remaining_range_target
        f["below_target"] = bool(tgt and rng < tgt)
    # bases an autonomous vehicle may return to: the smallest search disk holding one it may use, nearest in it
    max_k = _max_k(sim, env)
    if drv == "auto" and act == "Idle":
        acc = [b for b in sim.get_bases() if b.membership.grant_access_to_membership(veh.membership)]
        ks = {b.id: _disk(sim, veh.geoid, b.geoid) for b in acc}
        inside = [b for b in acc if ks[b.id] <= max_k]
        f["bases_any"] = sorted(b.id for b in inside)
        if inside:
            kmin = min(ks[b.id] for b in inside)
            ring = [b for b in inside if ks[b.id] == kmin]
            dmin = min(_hav_m(veh.geoid, b.geoid) for b in ring)
            f["bases_near"] = sorted(b.id for b in ring if _hav_m(veh.geoid, b.geoid) <= dmin * (1 + 1e-9) + 1e-6)
            f["bases_must"] = True
    # stations a human driver may be sent to on the way home
    if drv == "unavail":
        from nrel.hive.dispatcher.instruction_generator.charging_search_type import ChargingSearchType

        pairs, reach = [], False
        for s in sim.get_stations():
            if not s.membership.grant_access_to_membership(veh.membership):
                continue
            ok = [cid for cid in s.state.keys() if mech.valid_charger(env.chargers[cid])]
            pairs += [[s.id, cid] for cid in ok]
            if ok and _disk(sim, veh.geoid, s.geoid) <= max_k and any((s.get_total_chargers(c) or 0) > 0 for c in ok):
                reach = True
        f["stations"] = sorted(pairs)
        f["stations_must"] = bool(reach and cfg.charging_search_type == ChargingSearchType.NEAREST_SHORTEST_QUEUE)
        if cfg.charging_search_type == ChargingSearchType.NEAREST_SHORTEST_QUEUE:
            f["choice"] = station_choice_facts(veh, veh.geoid, sim, env)
    # request density (human drivers look for requests)
    if drv == "avail" and sim.r_search:
        import h3

        hr = _ranks(sim.r_search.keys())
        for hx, members in sim.r_search.items():
            dest = sim.road_network.position_from_geoid(h3.h3_to_center_child(hx, sim.sim_h3_location_resolution))
            f["hexes"].append({"n": len(members), "hr": hr[hx], "link": str(dest.link_id) if dest else ""})
        f["hexes"].sort(key=lambda x: x["hr"])
    return f


def cfm_facts(veh, sim, env, max_k) -> Dict[str, Any]:
    from nrel.hive.dispatcher.instruction_generator.instruction_generator_ops import get_nearest_valid_station_distance

    cfg = env.config.dispatcher
    mech = env.mechatronics.get(veh.mechatronics_id)
    act = type(veh.vehicle_state).__name__
    rng = mech.range_remaining_km(veh)
    near = get_nearest_valid_station_distance(
        max_search_radius_km=cfg.max_search_radius_km, vehicle=veh, geoid=veh.geoid, simulation_state=sim,
        environment=env, target_soc=cfg.ideal_fastcharge_soc_limit, charging_search_type=cfg.charging_search_type)
    reach = False
    access_any = False
    for s in sim.get_stations():
        if not s.membership.grant_access_to_membership(veh.membership):
            continue
        access_any = True
        ok = [cid for cid in s.state.keys() if mech.valid_charger(env.chargers[cid])]
        if ok and _disk(sim, veh.geoid, s.geoid) <= max_k and any((s.get_total_chargers(c) or 0) > 0 for c in ok):
            reach = True
    return {
        "v": veh.id, "proper": act in ("Idle", "Repositioning"),
        "le_soft": bool(rng <= cfg.charging_range_km_soft_threshold),
        "near_ok": bool(cfg.charging_range_km_threshold + near >= rng),
        "le_hard": bool(rng <= cfg.charging_range_km_threshold),
        "reach": reach, "access_any": access_any,
    }


class PolicyLog:
    """listens to a Tracer: collects the `gen` lines of the step, and at the stacks hook writes one policy line"""

    def __init__(self, path: Path):
        self.path = Path(path)
        self.f = self.path.open("w")
        self.gens: List[Dict[str, Any]] = []
        self.n = 0

    def listen(self, line: Dict[str, Any]) -> None:
        if line.get("ev") == "gen":
            self.gens.append(line)
        elif line.get("ev") in ("begin", "end"):
            self.gens = []

    def on_stacks(self, stacks, generators, sim, env) -> None:
        from nrel.hive.dispatcher.instruction_generator.instruction_generator_ops import get_nearest_valid_station_distance  # noqa: F401
        from nrel.hive.dispatcher.instruction_generator.charging_search_type import ChargingSearchType
        from hv.tracer import project_instruction

        gens, self.gens = self.gens, []
        logged = [g["name"] for g in gens] == list(generators)
        per_v: Dict[str, int] = {}
        for g in gens:
            for i in g["instrs"]:
                per_v[i["v"]] = per_v.get(i["v"], 0) + 1
        drivers = []
        if logged:
            for veh in sim.get_vehicles():
                f = driver_facts(veh, sim, env)
                if f is None:
                    continue
                st = stacks.get(veh.id, ())
                n = per_v.get(veh.id, 0)
                if len(st) == n:
                    f["obs"] = dict(NOI)
                elif len(st) == n + 1:
                    p = project_instruction(st[0])
                    f["obs"] = {"k": p["kind"], "tgt": p["tgt"], "plug": p["plug"]}
                else:
                    continue     # not a stack this module can read (C09 reports it)
                drivers.append(f)
        cfm = {"present": False, "complete": False, "emitted": [], "veh": [], "sent": []}
        mine = [g for g in gens if g["name"] == "ChargingFleetManager"]
        if len(mine) == 1 and env.config.dispatcher.charging_search_type == ChargingSearchType.NEAREST_SHORTEST_QUEUE:
            max_k = _max_k(sim, env)
            veh = [cfm_facts(v, sim, env, max_k) for v in sim.get_vehicles() if env.mechatronics.get(v.mechatronics_id)]
            cands = [c for c in veh if c["proper"] and c["le_soft"] and c["near_ok"]]
            by_id = {v.id: v for v in sim.get_vehicles()}
            sent = [{"v": i["v"], "tgt": i["tgt"], "plug": i["plug"],
                     "choice": station_choice_facts(by_id[i["v"]], by_id[i["v"]].geoid, sim, env)}
                    for i in mine[0]["instrs"] if i["v"] in by_id and i["kind"] == "DispatchStation"]
            cfm = {
                "sent": sent,
                "present": True,
                # the code stops at the first candidate that may use no station at all
                "complete": all(c["access_any"] for c in cands),
                "emitted": sorted(i["v"] for i in mine[0]["instrs"]),
                "veh": [{k: c[k] for k in ("v", "proper", "le_soft", "near_ok", "le_hard", "reach")} for c in veh],
            }
        self.f.write(json.dumps({"t": int(sim.sim_time), "drivers": drivers, "cfm": cfm}, separators=(",", ":")) + "\n")
        self.n += 1

    def close(self) -> None:
        if self.f:
            self.f.close()
            self.f = None
