"""Adversarial controller and generated worlds (source S-adv of DESIGN 3.4).

The Adversary is an ordinary hive InstructionGenerator that issues instructions of every type with valid
and invalid targets from every activity.  It is a pure function of (seed, name, simulation state), so a
state stepped twice gives the same instructions both times."""
from __future__ import annotations

import random
from typing import Any, Callable, Dict, List, Optional, Tuple

from hv import world

from nrel.hive.dispatcher.instruction.instructions import (
    ChargeBaseInstruction,
    ChargeStationInstruction,
    DispatchBaseInstruction,
    DispatchStationInstruction,
    DispatchTripInstruction,
    IdleInstruction,
    OutOfServiceInstruction,
    RepositionInstruction,
    ReserveBaseInstruction,
)
from nrel.hive.dispatcher.instruction_generator.instruction_generator import InstructionGenerator
from nrel.hive.model.roadnetwork.haversine_roadnetwork import HaversineRoadNetwork

KINDS = ["Idle", "OutOfService", "Reposition", "DispatchTrip", "DispatchStation", "ChargeStation",
         "DispatchBase", "ReserveBase", "ChargeBase"]


class Logged:
    """mixin: report what a generator emitted to the tracer (a `gen` line)"""

    on_emit: Optional[Callable[[str, Any], None]] = None


class Adversary(InstructionGenerator):
    def __init__(self, seed: int, label: str = "Adversary", p_instr: float = 0.45, kinds: Optional[List[str]] = None,
                 p_bogus: float = 0.08, emit: Optional[Callable[[Dict[str, Any]], None]] = None, near_bias: float = 0.5):
        self.seed = seed
        self.label = label
        self.p_instr = p_instr
        self.kinds = kinds or KINDS
        self.p_bogus = p_bogus
        self.emit = emit
        self.near_bias = near_bias

    @property
    def name(self) -> str:
        return self.label

    def generate_instructions(self, simulation_state, environment):
        sim, env = simulation_state, environment
        rng = random.Random(f"{self.seed}:{self.label}:{int(sim.sim_time)}")
        stations = list(sim.get_station_ids())
        bases = list(sim.get_base_ids())
        requests = list(sim.get_request_ids())
        plugs = sorted(env.chargers.keys())
        out = []
        for v in sim.get_vehicles():
            if rng.random() > self.p_instr:
                continue
            k = rng.choice(self.kinds)
            if v.id.startswith("vr") and rng.random() < 0.5:
                k = "ChargeBase"        # the vehicle standing at a remote base station keeps asking to charge "at the base"

            def pick(ids, bogus, here_attr=None):
                if not ids or rng.random() < self.p_bogus:
                    return bogus
                if here_attr is not None and rng.random() < self.near_bias:
                    # prefer an entity where the vehicle already is (exercises the accept paths)
                    here = [i for i in ids if here_attr(i) == v.geoid]
                    if here:
                        return rng.choice(here)
                return rng.choice(ids)

            if k == "Idle":
                i = IdleInstruction(v.id)
            elif k == "OutOfService":
                i = OutOfServiceInstruction(v.id)
            elif k == "Reposition":
                i = RepositionInstruction(v.id, self._some_link(sim, rng))
            elif k == "DispatchTrip":
                i = DispatchTripInstruction(v.id, pick(requests, "r_nope", lambda r: sim.requests[r].geoid))
            elif k == "DispatchStation":
                # now and then the station the vehicle is standing at ("already there"), mostly with a plug type it has
                s_ = pick(stations, "s_nope", (lambda s: sim.stations[s].geoid) if rng.random() < 0.4 else None)
                i = DispatchStationInstruction(v.id, s_, self._plug_of(rng, plugs, sim.stations.get(s_)))
            elif k == "ChargeStation":
                s_ = pick(stations, "s_nope", lambda s: sim.stations[s].geoid)
                i = ChargeStationInstruction(v.id, s_, self._plug_of(rng, plugs, sim.stations.get(s_)))
            elif k == "DispatchBase":
                i = DispatchBaseInstruction(v.id, pick(bases, "b_nope"))
            elif k == "ReserveBase":
                i = ReserveBaseInstruction(v.id, pick(bases, "b_nope", lambda b: sim.bases[b].geoid))
            else:
                def base_or_its_station(b):
                    # "here" also when the vehicle stands at the station that serves the base (it may be registered elsewhere)
                    st_ = sim.stations.get(sim.bases[b].station_id) if sim.bases[b].station_id else None
                    return v.geoid if st_ is not None and st_.geoid == v.geoid else sim.bases[b].geoid

                b_ = pick(bases, "b_nope", base_or_its_station)
                st_b = sim.stations.get(sim.bases[b_].station_id) if b_ in sim.bases and sim.bases[b_].station_id else None
                p_ = rng.choice(sorted(st_b.state.keys())) if st_b is not None and rng.random() < 0.6 else self._plug(rng, plugs)
                i = ChargeBaseInstruction(v.id, b_, p_)
            out.append(i)
        if self.emit:
            from hv.tracer import project_instruction

            self.emit({"ev": "gen", "name": self.label, "instrs": [project_instruction(i) for i in out]})
        return self, tuple(out)

    def _plug_of(self, rng, plugs, station):
        if station is not None and rng.random() < 0.6:
            return rng.choice(sorted(station.state.keys()))
        return self._plug(rng, plugs)

    def _plug(self, rng, plugs):
        if rng.random() < self.p_bogus:
            return "NOPLUG"
        return rng.choice(plugs)

    def _some_link(self, sim, rng):
        rn = sim.road_network
        if isinstance(rn, HaversineRoadNetwork):
            import nrel.hive.model.roadnetwork.haversine_link_id_ops as h_ops

            cells = sorted({e.geoid for e in list(sim.stations.values()) + list(sim.bases.values())}
                           | {v.geoid for v in sim.vehicles.values()})
            a, b = rng.choice(cells), rng.choice(cells)
            return h_ops.geoids_to_link_id(a, b)
        links = sorted(rn.link_helper.links.keys())
        if rng.random() < self.p_bogus:
            return "0-0"
        return rng.choice(links)


class QueueDriver(InstructionGenerator):
    """keeps a charge queue alive: sends vehicles to the (single) plug at staggered times, unplugs the charging vehicle
    every now and then, lets waiting vehicles abandon the queue occasionally and come back later.  A pure function of
    (seed, state)."""

    def __init__(self, seed: int, emit: Optional[Callable[[Dict[str, Any]], None]] = None, label: str = "QueueDriver"):
        self.seed, self.emit, self.label = seed, emit, label

    @property
    def name(self) -> str:
        return self.label

    def generate_instructions(self, simulation_state, environment):
        sim = simulation_state
        rng = random.Random(f"{self.seed}:queue:{int(sim.sim_time)}")
        out = []
        sid = sorted(sim.stations.keys())[0]
        st = sim.stations[sid]
        plugs = sorted(st.state.keys())
        bid = sorted(sim.bases.keys())[0] if sim.bases else None
        # now and then the operator clears the plugs: everybody charging is told to leave and the waiting vehicles are told to
        # plug in, all in one instruction phase (several plugs fall free before the queue is next served)
        shake = rng.random() < 0.10
        # now and then everybody who stands idle away from the station sets off at once: vehicles that start from the same
        # place arrive in the same step and join the queue with the same time stamp
        t0 = int(environment.config.sim.start_time)
        late_evening = t0 % 86400 > 86400 - 10 * int(sim.sim_timestep_duration_seconds)      # a run that begins minutes before midnight
        rush = rng.random() < ((1.0 if late_evening else 0.5) if int(sim.sim_time) == t0 else 0.06)
        for v in sim.get_vehicles():
            act = type(v.vehicle_state).__name__
            r = rng.random()
            # a stubborn customer (about one vehicle in three, fixed per world) is re-sent its order to go to the station every
            # step while it stands there idle or waits in the queue - what an off-shift human driver in need of a charge does
            h_st = random.Random(f"{self.seed}:stubborn:{v.id}").random()
            # (a depot vehicle that has never moved from the station's own spot is one most of the time)
            stubborn = h_st < 0.34 or (h_st < 0.85 and v.distance_traveled_km == 0 and v.geoid == st.geoid)
            if stubborn and not shake and (act == "ChargeQueueing" or (act == "Idle" and v.geoid == st.geoid)) and r < 0.9:
                own = v.vehicle_state
                usable0 = [c for c in plugs if environment.chargers[c].energy_type in v.energy] or plugs
                out.append(DispatchStationInstruction(v.id, getattr(own, "station_id", sid), getattr(own, "charger_id", usable0[0])))
                continue
            if shake and act == "ChargingStation":
                out.append(IdleInstruction(v.id))
                continue
            if shake and act == "ChargeQueueing" and r < 0.75:
                cls = ChargeStationInstruction if r < 0.4 else DispatchStationInstruction      # "plug in" or "go there" (it is there)
                out.append(cls(v.id, v.vehicle_state.station_id, v.vehicle_state.charger_id))
                continue
            # mostly a plug the vehicle can use; now and then any plug of the station (wrong energy type included)
            usable = [c for c in plugs if environment.chargers[c].energy_type in v.energy] or plugs
            plug = usable[0] if rng.random() < 0.85 else rng.choice(plugs)
            if act == "ChargingStation":
                if r < 0.14:
                    out.append(IdleInstruction(v.id))
            elif act == "ChargeQueueing":
                if r < 0.03 and bid:
                    out.append(DispatchBaseInstruction(v.id, bid))
                elif r >= 0.80 and len(sim.stations) > 1:
                    # re-balancing: pulled out of this queue and sent to the other station (where it joins the back of the queue)
                    others = [x for x in sorted(sim.stations.keys()) if x != v.vehicle_state.station_id]
                    o = others[int(r * 1000) % len(others)]
                    oplugs = sorted(sim.stations[o].state.keys())
                    ousable = [c for c in oplugs if environment.chargers[c].energy_type in v.energy] or oplugs
                    out.append(DispatchStationInstruction(v.id, o, ousable[0]))
                elif r < 0.15:
                    # re-dispatched to (or told to charge at) the very station it is queueing at, as the built-in off-shift
                    # human driver heading home is every step: only the head of the queue may get the plug that way
                    own = v.vehicle_state
                    cls = DispatchStationInstruction if r < 0.10 else ChargeStationInstruction
                    out.append(cls(v.id, own.station_id, own.charger_id))
            elif act in ("Idle", "ReserveBase"):
                if v.geoid == st.geoid:
                    if r < 0.5 and bid:
                        out.append(DispatchBaseInstruction(v.id, bid))     # leave, to come back and queue later
                elif r < 0.35 or (rush and act == "Idle"):
                    out.append(DispatchStationInstruction(v.id, sid, plug if not rush else usable[0]))
                elif r < 0.6 and len(sim.stations) > 1:
                    o = sorted(sim.stations.keys())[1]
                    oplugs = sorted(sim.stations[o].state.keys())
                    ousable = [c for c in oplugs if environment.chargers[c].energy_type in v.energy] or oplugs
                    out.append(DispatchStationInstruction(v.id, o, ousable[0]))
        if self.emit:
            from hv.tracer import project_instruction

            self.emit({"ev": "gen", "name": self.label, "instrs": [project_instruction(i) for i in out]})
        return self, tuple(out)


class ChargeDriver(InstructionGenerator):
    """keeps vehicles charging: plugs idle vehicles standing at a station into one of its plugs they can use (any of
    them - slow, fast, weaker or stronger than the vehicle accepts), sends the others to a station, unplugs now and
    then.  A pure function of (seed, state)."""

    def __init__(self, seed: int, emit: Optional[Callable[[Dict[str, Any]], None]] = None, label: str = "ChargeDriver"):
        self.seed, self.emit, self.label = seed, emit, label

    @property
    def name(self) -> str:
        return self.label

    def generate_instructions(self, simulation_state, environment):
        sim = simulation_state
        rng = random.Random(f"{self.seed}:charge:{int(sim.sim_time)}")
        out = []
        stations = [sim.stations[k] for k in sorted(sim.stations.keys())]
        for v in sim.get_vehicles():
            act = type(v.vehicle_state).__name__
            r = rng.random()
            here = [s for s in stations if s.geoid == v.geoid]

            def usable(s):
                return [c for c in sorted(s.state.keys()) if environment.chargers[c].energy_type in v.energy]

            if act == "ChargingStation":
                if r < 0.08:
                    out.append(IdleInstruction(v.id))
            elif act in ("Idle", "ReserveBase"):
                if here and usable(here[0]) and r < 0.7:
                    out.append(ChargeStationInstruction(v.id, here[0].id, rng.choice(usable(here[0]))))
                elif not here and stations and r < 0.3:
                    s = rng.choice(stations)
                    if usable(s):
                        out.append(DispatchStationInstruction(v.id, s.id, rng.choice(usable(s))))
        if self.emit:
            from hv.tracer import project_instruction

            self.emit({"ev": "gen", "name": self.label, "instrs": [project_instruction(i) for i in out]})
        return self, tuple(out)


class FixedPlan(InstructionGenerator):
    """a controller that builds its instructions ONCE and hands the very same instruction objects to the simulator step
    after step (a fixed plan): legal - instructions are immutable values"""

    def __init__(self, seed: int):
        self.seed = seed
        self.cache: Dict[str, Any] = {}

    @property
    def name(self) -> str:
        return "FixedPlan"

    def generate_instructions(self, simulation_state, environment):
        sim = simulation_state
        rng = random.Random(f"{self.seed}:plan:{int(sim.sim_time)}")
        out = []
        for v in sim.get_vehicles():
            if v.id not in self.cache:
                self.cache[v.id] = IdleInstruction(v.id)
            if rng.random() < 0.5:
                out.append(self.cache[v.id])
        return self, tuple(out)


class CountingGenerator(InstructionGenerator):
    """a STATEFUL controller in the functional style hive expects: it returns an updated copy of itself every step and
    acts on every third call (repositions the first idle vehicle).  Splitting a run must carry its state along."""

    def __init__(self, seen: int = 0):
        self.seen = seen

    @property
    def name(self) -> str:
        return "CountingGenerator"

    def generate_instructions(self, simulation_state, environment):
        sim = simulation_state
        out = []
        if self.seen % 3 == 2:
            idle = [v for v in sim.get_vehicles() if type(v.vehicle_state).__name__ == "Idle"]
            targets = sorted({e.geoid for e in list(sim.stations.values()) + list(sim.bases.values())})
            if idle and targets and isinstance(sim.road_network, HaversineRoadNetwork):
                import nrel.hive.model.roadnetwork.haversine_link_id_ops as h_ops

                g = targets[self.seen % len(targets)]
                out.append(RepositionInstruction(idle[0].id, h_ops.geoids_to_link_id(g, g)))
        return CountingGenerator(self.seen + 1), tuple(out)


class DiceGenerator(InstructionGenerator):
    """a controller that draws from the interpreter's GLOBAL random stream, as the custom dispatcher of hive's own
    examples/cosim_custom_dispatcher.py does; the user seeds that stream once, after loading.  However the run is cut into
    calls, the draws must come out of the one stream in the same order."""

    @property
    def name(self) -> str:
        return "DiceGenerator"

    def generate_instructions(self, simulation_state, environment):
        import random as global_random

        sim = simulation_state
        out = []
        targets = sorted({e.geoid for e in list(sim.stations.values()) + list(sim.bases.values())})
        for v in sim.get_vehicles():
            if type(v.vehicle_state).__name__ != "Idle" or not targets:
                continue
            if global_random.random() < 0.3 and isinstance(sim.road_network, HaversineRoadNetwork):
                import nrel.hive.model.roadnetwork.haversine_link_id_ops as h_ops

                g = global_random.choice(targets)
                out.append(RepositionInstruction(v.id, h_ops.geoids_to_link_id(g, g)))
        return self, tuple(out)


class Wrapped(InstructionGenerator):
    """a built-in generator, unchanged, whose emissions are also reported to the tracer"""

    def __init__(self, inner: InstructionGenerator, emit: Callable[[Dict[str, Any]], None]):
        self.inner = inner
        self.emit = emit

    @property
    def name(self) -> str:
        return self.inner.name

    def generate_instructions(self, simulation_state, environment):
        from hv.tracer import project_instruction

        upd, instrs = self.inner.generate_instructions(simulation_state, environment)
        self.emit({"ev": "gen", "name": self.name, "instrs": [project_instruction(i) for i in instrs]})
        return Wrapped(upd, self.emit), instrs


# ---------------------------------------------------------------------------------------------


def spoil_memberships(requests: List[Dict[str, Any]], rng: random.Random, has_fleets: bool, p: float = 0.12) -> None:
    """some rows of the request file contradict the scenario (they name a fleet where none is defined, or none where
    fleets are defined): hive skips such a row with a warning - and must skip nothing else"""
    for r in requests:
        if rng.random() < p:
            r["fleet"] = None if has_fleets else "fx"
            r["skipped_by_design"] = True
        elif rng.random() < p / 2:
            r["malformed"] = True          # a row that cannot be parsed (an empty coordinate): skipped with an error message
            r["skipped_by_design"] = True


def gen_queue_world(rng: random.Random, n_steps: int, variant: Optional[str] = None) -> Dict[str, Any]:
    """one station with ONE slow plug and 4-6 vehicles at or next to it, several (nearly) full, some nearly flat: long
    queues, arrivals in different steps, ids assigned against the arrival order, vehicles running flat while waiting"""
    dt = 60
    c0 = world.at(0, 0)
    near = [world.at(300, 0), world.at(0, 500), world.at(-700, 200)]
    close = [world.at(40, 0), world.at(0, -60), world.at(-30, 30)]       # a few metres of driving
    plug = rng.choice(["LEVEL_1", "LEVEL_1", "LEVEL_2"])
    stations = [{"id": "s1", "lat": c0[0], "lon": c0[1], "plugs": [(plug, 1, True)] + ([("DCFC", 1, True)] if rng.random() < 0.25 else [])}]
    bases = [{"id": "b1", "lat": near[0][0], "lon": near[0][1], "station": None, "stalls": 2}]
    variant = variant or rng.choice(["plain", "plain", "fleet", "mixed", "two", "twin"])
    n_v = rng.randint(4, 6) + (1 if variant in ("two", "twin") else 0)
    ids = [f"v{k+1}" for k in range(n_v)]
    rng.shuffle(ids)
    vehicles = []
    for k, vid in enumerate(ids):
        flat = rng.random() < 0.35
        if flat:
            # barely makes it to the station and runs flat while waiting in the queue
            c = rng.choice(close)
            soc = rng.uniform(0.0003, 0.0012)
        else:
            c = c0 if k < 1 or rng.random() < 0.3 else rng.choice(near + close)
            soc = rng.choice([0.3, 0.6, 0.9, 0.999, 1.0])
        vehicles.append({"id": vid, "lat": c[0], "lon": c[1], "mech": "leaf_50", "soc": soc})
    w = {"name": "queue", "dt": dt, "start": 0, "end": dt * n_steps, "cancel": 600, "vehicles": vehicles, "requests": [],
         "stations": stations, "bases": bases, "focus": "queue"}
    if variant == "two":
        stations[0]["plugs"] = [(plug, 2, True)]          # two plugs of the one type: several can fall free in one step
    if variant == "twin":
        # a second one-plug station a few hundred metres away: waiting vehicles are moved from one queue to the other
        stations.append({"id": "s2", "lat": near[1][0], "lon": near[1][1], "plugs": [(plug, 1, True)]})
    if variant == "fleet":
        # a PUBLIC station used by fleet members and fleet-less vehicles alike (or a station of the fleet all belong to)
        members = [v["id"] for v in vehicles if rng.random() < 0.5] or [vehicles[0]["id"]]
        if rng.random() < 0.3:
            w["fleets"] = {"fa": {"vehicles": [v["id"] for v in vehicles], "stations": ["s1"], "bases": []}}
        else:
            w["fleets"] = {"fa": {"vehicles": members, "stations": [], "bases": []}}
    elif variant == "mixed":
        # a station that also sells petrol, and combustion vehicles among the customers
        stations[0]["plugs"] = [(plug, 1, True), ("GAS_PUMP", 1, True)]
        for v in vehicles:
            if rng.random() < 0.4:
                v["mech"] = "toyota_corolla"
                v["soc"] = rng.choice([0.05, 0.3, 0.6, 0.97])
    w["variant"] = variant
    if rng.random() < 0.5:
        # the run begins shortly before midnight: vehicles that joined the queue yesterday wait beside those that join today
        # (two steps before it: of the vehicles that set off together at the start, those from round the corner join the queue
        # at 23:59, those from further away at 00:00)
        w["start"] = 86400 - dt * rng.choice([2, 2, 2, 3, 5])
        w["end"] = w["start"] + dt * n_steps
    return w


def gen_fleet_world(rng: random.Random, n_steps: int, variant: Optional[str] = None) -> Dict[str, Any]:
    """two fleets; vehicles in none / one / both; stations, bases (each with its own station) and requests in none / one
    fleet, all within two cells so that every kind of interaction is attempted often"""
    dt = 60
    far = rng.random() < 0.5          # journeys of several steps: things can change while a vehicle is on its way
    cells = [world.at(0, 0), world.at(1700 if far else 450, 0)]
    fl = {"fa": {"vehicles": [], "stations": [], "bases": []}, "fb": {"vehicles": [], "stations": [], "bases": []}}

    def member(kind, ident, opts):
        for f in rng.choice(opts):
            fl[f][kind].append(ident)

    stations, bases, vehicles, requests = [], [], [], []
    for k in range(2):
        c = cells[k]
        stations.append({"id": f"s{k+1}", "lat": c[0], "lon": c[1], "plugs": [("DCFC", 1 if far else 2, True), ("LEVEL_2", 1 if far else 2, True)]})
        member("stations", f"s{k+1}", [[], ["fa"], ["fb"], ["fa", "fb"]])
        stations.append({"id": f"bs{k+1}", "lat": c[0], "lon": c[1], "plugs": [("LEVEL_2", 2, False)]})
        member("stations", f"bs{k+1}", [[], [], ["fa"], ["fb"]])
        bases.append({"id": f"b{k+1}", "lat": c[0], "lon": c[1], "station": f"bs{k+1}", "stalls": 3})
        member("bases", f"b{k+1}", [[], ["fa"], ["fb"], ["fa"], ["fb"]])
    low = variant == "lowcharge"
    for k in range(rng.randint(7, 9) if low else rng.randint(4, 6)):
        c = cells[rng.randrange(2)]
        vehicles.append({"id": f"v{k+1}", "lat": c[0], "lon": c[1], "mech": "leaf_50",
                         "soc": rng.choice([0.03, 0.045, 0.05, 0.055, 0.0575, 0.058, 0.3]) if low else rng.choice([0.3, 0.6, 0.8])})
        member("vehicles", f"v{k+1}", [[], ["fa"], ["fb"], ["fa", "fb"]])
    if low:
        # every station belongs to fleet fa: the vehicles of fb alone (and of no fleet) that need a charge have nowhere to go,
        # several vehicles reach the charging threshold in the same step
        fl["fa"]["stations"] = [s_["id"] for s_ in stations]
        fl["fb"]["stations"] = []
        if rng.random() < 0.5:
            # ... or each fleet has the stations of one cell to itself
            fl["fa"]["stations"] = ["s1", "bs1"]
            fl["fb"]["stations"] = ["s2", "bs2"]
    for k in range(rng.randint(6, 14)):
        o, d = cells[rng.randrange(2)], cells[rng.randrange(2)]
        requests.append({"id": f"r{k+1:02d}", "o": o, "d": d, "dep": rng.randrange(0, dt * n_steps * 3 // 4), "pax": 1,
                         "fleet": rng.choice(["fa", "fb"])})
    spoil_memberships(requests, rng, True, p=0.15)
    requests.sort(key=lambda r: (r["dep"], r["id"]))
    w = {"name": "fleet", "dt": dt, "start": 0, "end": dt * n_steps, "cancel": 600, "vehicles": vehicles, "requests": requests,
         "stations": stations, "bases": bases, "fleets": fl, "focus": "fleet"}
    if rng.random() < 0.5:
        # parked and base-charging vehicles are dispatchable too in this configuration
        w["dispatcher"] = {"valid_dispatch_states": ["idle", "repositioning", "reservebase", "chargingbase"],
                           "base_charging_range_km_threshold": rng.choice([0, 100])}
    return w


def gen_whatif_world(rng: random.Random, n_steps: int) -> Dict[str, Any]:
    """two single-plug fast-charging stations in one search cell, each occupied from the first step by a vehicle that
    arrived nearly flat (so the waiting times at both are about equal), and vehicles that reach the charging threshold one
    after the other: where the charging manager sends each of them depends on the charge levels of the vehicles that
    are plugged in - exactly what a what-if variant of the state changes"""
    dt = 60
    c_near, c_far, c_mid = world.at(300, 0), world.at(-800, 0), world.at(0, 0)
    stations = [{"id": "s_near", "lat": c_near[0], "lon": c_near[1], "plugs": [("DCFC", 1, True)]},
                {"id": "s_far", "lat": c_far[0], "lon": c_far[1], "plugs": [("DCFC", 1, True)]}]
    bases = [{"id": "b1", "lat": c_mid[0], "lon": c_mid[1], "station": None, "stalls": 8}]
    vehicles = [{"id": "p1", "lat": c_near[0], "lon": c_near[1], "mech": "leaf_50", "soc": rng.choice([0.10, 0.102])},
                {"id": "p2", "lat": c_far[0], "lon": c_far[1], "mech": "leaf_50", "soc": rng.choice([0.10, 0.104])}]
    # leaf_50: about 364 km on a full battery, 0.8 kWh per idle hour = 0.097 km per minute; the manager sends a vehicle to
    # charge when its range falls to 40 km + the distance to the nearest station
    for k in range(4):
        x = rng.uniform(-100, 100)
        c = world.at(x, rng.uniform(-80, 80))
        cross = 2 + 3 * k + rng.randint(0, 1)
        rng_km = 40.0 + 0.3 + 0.0954 * cross + 0.06
        vehicles.append({"id": f"c{k+1}", "lat": c[0], "lon": c[1], "mech": "leaf_50", "soc": rng_km / 357.632})
    return {"name": "whatif", "dt": dt, "start": 0, "end": dt * max(n_steps, 600),     # a far horizon: charge-time estimates are capped by it
            "cancel": 600, "vehicles": vehicles, "requests": [],
            "stations": stations, "bases": bases, "focus": "whatif",
            "dispatcher": {"charging_range_km_threshold": 40, "charging_range_km_soft_threshold": 90, "idle_time_out_seconds": 100000}}


def gen_dispatch_world(rng: random.Random, n_steps: int) -> Dict[str, Any]:
    """only the built-in generators: several vehicles around bursts of requests, some requests already waiting in the
    initial state at the start time (as a co-simulation user adds them), start time 0"""
    dt = rng.choice([30, 60, 60])
    pts = [world.at(rng.uniform(-800, 800), rng.uniform(-800, 800)) for _ in range(5)]
    vehicles = [{"id": f"v{k+1}", "lat": pts[k % 5][0], "lon": pts[k % 5][1], "mech": "leaf_50", "soc": rng.choice([0.5, 0.8, 0.08])}
                for k in range(rng.randint(3, 7))]
    stations = [{"id": "s1", "lat": pts[0][0], "lon": pts[0][1], "plugs": [("DCFC", 2, True)]}]
    bases = [{"id": "b1", "lat": pts[1][0], "lon": pts[1][1], "station": None, "stalls": 10}]
    requests, preload = [], []
    for k in range(rng.randint(4, 14)):
        o, d = pts[rng.randrange(5)], pts[rng.randrange(5)]
        r = {"id": f"r{k+1:02d}", "o": o, "d": d, "dep": rng.randrange(0, dt * n_steps // 2), "pax": 1, "fleet": None}
        if rng.random() < 0.3:
            r["dep"] = 0
            preload.append(r)
        else:
            requests.append(r)
    requests.sort(key=lambda r: (r["dep"], r["id"]))
    return {"name": "dispatch", "dt": dt, "start": 0, "end": dt * n_steps, "cancel": rng.choice([300, 600]), "vehicles": vehicles,
            "requests": requests, "preload": preload, "stations": stations, "bases": bases, "focus": "dispatch",
            "rate": (2.0, 1.0, 3.0)}


def gen_energy_world(rng: random.Random, n_steps: int, dt: Optional[int] = None) -> Dict[str, Any]:
    """plenty of plugs of every type, electric and combustion vehicles at every charge level, odd step lengths
    (shorter than / not a multiple of the charge curve's 60 s integration step), tariffs that change mid-run"""
    dt = dt or rng.choice([1, 7, 30, 45, 60, 90, 600])
    span = max(200.0, min(3000.0, 11.0 * dt * 2.5))      # a few steps of driving between cells
    cells = [world.at(0, 0), world.at(span, 0), world.at(0, span * 0.7)]
    stations = [
        {"id": "s1", "lat": cells[0][0], "lon": cells[0][1], "plugs": [("LEVEL_1", 3, True), ("LEVEL_2", 3, True), ("DCFC", 3, True), ("GAS_PUMP", 3, True)]},
        {"id": "s2", "lat": cells[1][0], "lon": cells[1][1], "plugs": [("DCFC", 2, True), ("GAS_PUMP", 2, True)]},
        {"id": "bs1", "lat": cells[2][0], "lon": cells[2][1], "plugs": [("LEVEL_2", 3, False), ("LEVEL_1", 2, False)]},
    ]
    bases = [{"id": "b1", "lat": cells[2][0], "lon": cells[2][1], "station": "bs1", "stalls": 4}]
    vehicles = []
    for k in range(rng.randint(4, 7)):
        c = cells[rng.randrange(3)]
        ice = rng.random() < 0.4
        soc = rng.choice([0.0, 0.002, 0.05, 0.5, 0.9, 0.97, 0.9985, 1.0, 0.9972, 0.9977])      # incl. just below the "full" cut-off
        vehicles.append({"id": f"v{k+1}", "lat": c[0], "lon": c[1], "mech": "toyota_corolla" if ice else "leaf_50", "soc": soc})
    if dt <= 7:
        # fine time steps: vehicles a few watt-hours below the "full" cut-off standing at the fast-charging station
        for k, soc in enumerate((0.9979996, 0.997998, 0.997992)):       # 0.02, 0.1 and 0.4 Wh below the cut-off (49.9 kWh)
            vehicles.append({"id": f"n{k+1}", "lat": cells[1][0], "lon": cells[1][1], "mech": "leaf_50", "soc": soc})
    requests = []
    for k in range(rng.randint(2, 8)):
        o, d = cells[rng.randrange(3)], cells[rng.randrange(3)]
        requests.append({"id": f"r{k+1:02d}", "o": o, "d": d, "dep": rng.randrange(0, max(1, dt * n_steps // 2)), "pax": 1, "fleet": None})
    requests.sort(key=lambda r: (r["dep"], r["id"]))
    prices = []
    for t in sorted({0, dt * (n_steps // 3) + 1, dt * (n_steps // 2)}):
        for s in stations:
            for (cid, _, _) in s["plugs"]:
                prices.append({"time": t, "target": s["id"], "charger_id": cid, "price": rng.choice([0.0, 0.013, 0.2, 0.45, 0.9, -0.15])})     # incl. a tariff that pays the driver
    w = {"name": "energy", "dt": dt, "start": 0, "end": dt * n_steps, "cancel": max(600, 5 * dt), "vehicles": vehicles,
         "requests": requests, "stations": stations, "bases": bases, "prices": prices, "price_key": "station_id",
         "rate": (2.2, 1.6, 5.0), "focus": "energy"}
    if rng.random() < 0.5:
        # powertrain and charger definitions of the scenario's own: a battery whose charge curve still accepts real power
        # when nearly full (integrated in slices of 60 or 300 s), and fast plugs of several powers - weaker and stronger
        # than what the vehicles accept - side by side
        w["mechatronics"] = {
            "leaf_50": {"mechatronics_type": "bev", "powercurve_file": "normalized.yaml", "powertrain_file": "normalized-electric.yaml",
                        "battery_capacity_kwh": 50, "nominal_max_charge_kw": 50, "charge_taper_cutoff_kw": 10,
                        "nominal_watt_hour_per_mile": 225, "idle_kwh_per_hour": 0.8},
            "toyota_corolla": {"mechatronics_type": "ice", "tank_capacity_gallons": 10, "idle_gallons_per_hour": 0.2,
                               "powertrain_file": "normalized-gasoline.yaml", "nominal_miles_per_gallon": 30},
            "taper_60": {"mechatronics_type": "bev", "powercurve_file": "late_taper.yaml", "powertrain_file": "normalized-electric.yaml",
                         "battery_capacity_kwh": 60, "nominal_max_charge_kw": 120, "charge_taper_cutoff_kw": 10,
                         "nominal_watt_hour_per_mile": 250, "idle_kwh_per_hour": 0.9},
        }
        w["extra_files"] = {"powercurve/late_taper.yaml": {
            "name": "late_taper", "power_type": "electric", "step_size_seconds": rng.choice([60, 300]), "type": "tabular",
            "power_curve": [{"power_kw": 1.0, "energy_kwh": 0.0}, {"power_kw": 1.0, "energy_kwh": 0.8},
                            {"power_kw": 0.4, "energy_kwh": 1.0}]}}
        w["chargers"] = [("LEVEL_1", "electric", 3.3, "kilowatts"), ("LEVEL_2", "electric", 7.2, "kilowatts"),
                         ("DCFC", "electric", 50, "kilowatts"), ("GAS_PUMP", "gasoline", 0.16, "gal_per_second"),
                         ("DC20", "electric", 20, "kilowatts"), ("DC150", "electric", 150, "kilowatts")]
        stations[0]["plugs"] += [("DC20", 2, True), ("DC150", 2, True)]
        stations[1]["plugs"] += [("DC20", 1, True), ("DC150", 1, True)]
        for v in vehicles:
            if v["mech"] == "leaf_50" and rng.random() < 0.6:
                v["mech"] = "taper_60"
                v["soc"] = rng.choice([0.3, 0.3, 0.85, 0.95, 0.985, 0.999])
        # and a few identical vehicles standing at the first station at the same charge level
        level = rng.choice([0.2, 0.3, 0.5])
        for k in range(rng.randint(2, 3)):
            vehicles.append({"id": f"t{k+1}", "lat": cells[0][0], "lon": cells[0][1], "mech": rng.choice(["taper_60", "leaf_50"]) if k else "taper_60",
                             "soc": level})
        w["prices"] = prices + [{"time": 0, "target": s_["id"], "charger_id": cid, "price": 0.3}
                                for s_ in stations[:2] for cid in ("DC20", "DC150")]
        w["prices"].sort(key=lambda p_: p_["time"])
    return w


def gen_shift_world(rng: random.Random, n_steps: int, dt: Optional[int] = None) -> Dict[str, Any]:
    """human drivers with shift tables that cross midnight, touch step boundaries, are empty or cover the whole day"""
    dt = dt or rng.choice([1, 7, 60, 900, 3600])
    start = rng.choice([0, 0, 3 * 3600 + 17, 23 * 3600 + 1800, 86400 - 2 * dt, 7 * 3600])
    t_end = start + dt * n_steps

    def on_grid(off_steps):   # a time that coincides with the start of a step
        return (start + dt * off_steps) % 86400

    k1, k2 = sorted(rng.sample(range(1, max(3, n_steps - 1)), 2))
    sched = [
        ("grid", _hms(on_grid(k1)), _hms(on_grid(k2))),                      # both ends on step boundaries
        ("offgrid", _hms((on_grid(k1) + 1) % 86400), _hms((on_grid(k2) - 1) % 86400)),
        ("wrap", _hms(on_grid(k2)), _hms(on_grid(k1))),                      # crosses midnight (or wraps the other way)
        ("night", "22:00:00", "02:30:00"),
        ("empty", "06:00:00", "06:00:00"),
        ("allday", "00:00:00", "23:59:59"),
        ("rand", _hms(rng.randrange(86400)), _hms(rng.randrange(86400))),
    ]
    c0, c1 = world.at(0, 0), world.at(500, 300)
    bases = [{"id": "b1", "lat": c0[0], "lon": c0[1], "station": None, "stalls": 10}]
    stations = [{"id": "s1", "lat": c1[0], "lon": c1[1], "plugs": [("DCFC", 4, True)]}]
    vehicles = []
    for k, (sid, _, _) in enumerate(sched):
        vehicles.append({"id": f"h{k+1}", "lat": c0[0], "lon": c0[1], "mech": "leaf_50", "soc": 0.9, "schedule": sid, "home_base": "b1"})
    vehicles.append({"id": "a1", "lat": c1[0], "lon": c1[1], "mech": "leaf_50", "soc": 0.9})
    # ... and a driverless vehicle whose id sorts AFTER the human-driven ones (drivers are updated in id order)
    vehicles.append({"id": "m1", "lat": c1[0], "lon": c1[1], "mech": "leaf_50", "soc": 0.85})
    # human-driven vehicles that run out of energy early in the run (away from home, nearly flat): their drivers' shifts
    # still begin and end while the vehicle is out of service
    for k, sid in enumerate(("grid", "wrap", "offgrid")):
        flat = min(0.9, max(1e-5, 0.8 * dt * (n_steps / rng.choice([5, 8, 12])) / 3600.0 / 50.0))
        c2 = world.at(1500 + 40 * k, -900)        # away from the station, or they would simply plug in
        vehicles.append({"id": f"h{len(sched) + k + 1}", "lat": c2[0], "lon": c2[1], "mech": "leaf_50", "soc": flat,
                         "schedule": sid, "home_base": "b1"})
    requests = []
    n_r = min(60, max(6, n_steps // 3))
    for k in range(n_r):
        dep = start + rng.randrange(0, max(1, dt * n_steps - 1))
        o, d = (c0, c1) if rng.random() < 0.5 else (c1, c0)
        requests.append({"id": f"r{k+1:03d}", "o": o, "d": d, "dep": dep, "pax": 1, "fleet": None})
    requests.sort(key=lambda r: (r["dep"], r["id"]))
    w = {"name": "shift", "dt": dt, "start": start, "end": t_end, "cancel": max(600, 4 * dt), "vehicles": vehicles,
         "requests": requests, "stations": stations, "bases": bases, "schedules": sched, "focus": "shift"}
    # drivers with a short break between shifts, nearly flat, next to a SLOW public plug and without a plug at home: they
    # are still charging for the way home when the next shift begins
    k3 = max(2, min(n_steps - 12, k1 + 1))
    sched.append(("shortbreak", _hms(on_grid(k3 + 10)), _hms(on_grid(k3))))       # off for ten steps only
    c3 = world.at(-1200, 700)
    stations.append({"id": "s_slow", "lat": c3[0], "lon": c3[1], "plugs": [("LEVEL_1", 3, True)]})
    for k in range(2):
        vehicles.append({"id": f"hs{k+1}", "lat": c3[0] + 0.0004 * (k + 1), "lon": c3[1], "mech": "leaf_50", "soc": rng.choice([0.03, 0.04]),
                         "schedule": "shortbreak", "home_base": "b1"})
    if rng.random() < 0.35:
        # a crowded home: one stall only, with a plug, taken by an autonomous vehicle that parks there right away - the
        # human drivers whose shift ends (often while they are on their way to a request) find no room at home
        stations.append({"id": "bs_home", "lat": c0[0], "lon": c0[1], "plugs": [("LEVEL_2", 1, False)]})
        bases[0].update({"station": "bs_home", "stalls": 1})
        vehicles.append({"id": "a0", "lat": c0[0], "lon": c0[1], "mech": "leaf_50", "soc": 0.6})
        w["dispatcher"] = dict(w.get("dispatcher") or {}, idle_time_out_seconds=dt)
        for v in vehicles:
            if v.get("schedule") and v["id"].startswith("h") and not v["id"].startswith("hs"):
                v["lat"], v["lon"] = c1[0], c1[1]          # the humans start in town, not at home
        # a busy hour in town: a request every step a kilometre or so from the drivers, and six more drivers whose shifts
        # end one after the other during it
        for k in range(6):
            sid = f"end{k}"
            sched.append((sid, _hms(on_grid(0)), _hms(on_grid(14 + 5 * k))))
            vehicles.append({"id": f"he{k+1}", "lat": c1[0], "lon": c1[1], "mech": "leaf_50", "soc": 0.9, "schedule": sid, "home_base": "b1"})
        # two of them live eight kilometres out, have no plug at home and are low on charge (just above the matching range):
        # when their shift ends they have to plan a charging stop - possibly with a passenger still on board
        c_far = world.at(8000, 0)
        bases.append({"id": "b_far", "lat": c_far[0], "lon": c_far[1], "station": None, "stalls": 4})
        for v in vehicles:
            if v["id"] in ("he3", "he5"):
                v.update({"home_base": "b_far", "soc": rng.choice([0.066, 0.072])})
        for k in range(min(50, n_steps - 2)):
            o = world.at(500 + rng.uniform(-900, 900), 300 + rng.uniform(-900, 900))
            requests.append({"id": f"b{k+1:03d}", "o": o, "d": c1, "dep": start + dt * k + rng.randrange(0, dt), "pax": 1, "fleet": None})
        requests.sort(key=lambda r: (r["dep"], r["id"]))
    if rng.random() < 0.4:
        # everybody in one fleet, parked vehicles dispatchable (as in the shipped manhattan scenario)
        w["fleets"] = {"fa": {"vehicles": [v["id"] for v in vehicles], "stations": [], "bases": []}}
        for r in requests:
            r["fleet"] = "fa"
        w["dispatcher"] = dict(w.get("dispatcher") or {}, valid_dispatch_states=["idle", "repositioning", "reservebase", "chargingbase"])
        # some human drivers work on their own account: not in the fleet, their only membership is that of their home base
        w["fleets"]["fa"]["vehicles"] = [v["id"] for v in vehicles if not (v.get("home_base") and rng.random() < 0.3)]
    return w


def gen_input_world(rng: random.Random, n_steps: int, dt: Optional[int] = None) -> Dict[str, Any]:
    """timed inputs: request bursts / gaps / identical and on-boundary time stamps, price tables by station id or by
    region (coarser than, equal to and finer than the search resolution) that mention only some stations"""
    import h3

    dt = dt or rng.choice([1, 7, 37, 60, 400])
    start = rng.choice([0, 0, 17, 990, 86400 - 3 * dt])
    cancel = rng.choice([dt, 3 * dt + 5, 250, 600, 2 * dt])
    t_end = start + dt * n_steps
    # two stations ~600 m apart inside one search cell, one in another search cell, one more next to the first
    pts = [world.at(0, 0), world.at(600, 0), world.at(9000, 3000), world.at(40, 30)]
    stations = []
    for k, c in enumerate(pts[: rng.randint(3, 4)]):
        stations.append({"id": f"s{k+1}", "lat": c[0], "lon": c[1], "plugs": [("DCFC", 2, True)] + ([("LEVEL_2", 1, True)] if rng.random() < 0.6 else [])})
    bases = [{"id": "b1", "lat": pts[0][0], "lon": pts[0][1], "station": None, "stalls": 3}]
    vehicles = [{"id": f"v{k+1}", "lat": pts[k % 2][0], "lon": pts[k % 2][1], "mech": "leaf_50", "soc": 0.8} for k in range(rng.randint(1, 2))]
    requests = []
    t = start - rng.choice([0, 0, dt, 3 * cancel])
    rid = 0
    while t < t_end and rid < 70:
        burst = rng.choice([1, 1, 1, 2, 4])
        for _ in range(burst):
            rid += 1
            o, d = pts[rng.randrange(2)], pts[rng.randrange(2)]
            requests.append({"id": f"r{rid:03d}", "o": o, "d": d, "dep": max(0, t), "pax": 1, "fleet": None})
        step = rng.choice([0, 1, dt - 1, dt, dt + 1, 2 * dt, rng.randrange(1, 5 * dt + 2)])
        t += max(0, step)
        if rng.random() < 0.3:
            t = start + ((t - start) // dt) * dt          # exactly on a step boundary
    requests = [r for r in requests if r["dep"] >= 0]
    spoil_memberships(requests, rng, False, p=0.08)
    if rng.random() < 0.4:
        for r in requests:
            r["pool"] = rng.random() < 0.2          # the optional allows_pooling column: "true" in some rows, blank in the others
    requests.sort(key=lambda r: r["dep"])
    mode = rng.choice(["station_id", "station_id", "region_coarse", "region_search", "region_fine"])
    prices: List[Dict[str, Any]] = []
    stamps = sorted({max(0, start - 5), start, start + dt * (n_steps // 4), start + dt * (n_steps // 2) + rng.choice([0, 1, dt - 1]),
                     start + dt * (3 * n_steps // 4)})
    # several blocks falling due in the SAME step (two before the start, two inside one step): each names only some
    # stations and plugs, so the earlier ones are not superseded
    third = start + dt * (n_steps // 3)
    stamps = sorted(set(stamps) | {max(0, start - 9)} | ({third + 1, third + 2} if dt > 3 else set()))
    if mode == "station_id":
        for ts in stamps:
            named = [s for s in stations if rng.random() < 0.6] or [stations[0]]
            for s in named:
                for (cid, _, _) in s["plugs"]:
                    if rng.random() < 0.8:
                        prices.append({"time": ts, "target": s["id"], "charger_id": cid, "price": rng.choice([0.05, 0.11, 0.2, 0.35, 0.5, 0.0, 0.0])})      # free charging too
        key = "station_id"
    else:
        res = {"region_coarse": rng.choice([5, 6]), "region_search": 7, "region_fine": rng.choice([8, 9, 10])}[mode]
        regions = sorted({h3.geo_to_h3(s["lat"], s["lon"], res) for s in stations})
        for ts in stamps:
            named = [g for g in regions if rng.random() < 0.6] or [regions[0]]
            for g in named:
                for cid in ("DCFC", "LEVEL_2"):
                    if rng.random() < 0.8:
                        prices.append({"time": ts, "target": g, "charger_id": cid, "price": rng.choice([0.05, 0.11, 0.2, 0.35, 0.5, 0.0, 0.0])})      # free charging too
        key = "geoid"
    prices.sort(key=lambda p: p["time"])
    return {"name": "inputs", "dt": dt, "start": start, "end": t_end, "cancel": cancel, "vehicles": vehicles, "requests": requests,
            "stations": stations, "bases": bases, "prices": prices, "price_key": key, "focus": "inputs", "price_mode": mode,
            "lazy": rng.random() < 0.5,
            # time stamps written as ISO 8601 text with a fraction of a second (the simulator's clock has whole seconds: a stamp
            # 0.6 s before a step boundary is BEFORE that boundary)
            "iso_times": rng.random() < 0.4}


def gen_match_world(rng: random.Random, n_steps: int) -> Dict[str, Any]:
    """rectangular matching problems with ties: 0-7 vehicles and 0-8 requests on a small lattice (co-located entities,
    equal distances), charge levels around the matching-range threshold, shifts, optional fleets, several
    valid_dispatch_states configurations"""
    dt = 60
    lattice = [world.at(60.0 * i, 52.0 * j) for i in range(3) for j in range(3)] + [world.at(2500, 900)]
    use_fleets = rng.random() < 0.4
    fl = {"fa": {"vehicles": [], "stations": [], "bases": []}, "fb": {"vehicles": [], "stations": [], "bases": []}}
    n_v, n_r = rng.randint(0, 7), rng.randint(0, 8)
    b = lattice[0]
    bases = [{"id": "b1", "lat": b[0], "lon": b[1], "station": "bs1", "stalls": 8}]
    stations = [{"id": "bs1", "lat": b[0], "lon": b[1], "plugs": [("LEVEL_2", 8, False)]},
                {"id": "s1", "lat": lattice[4][0], "lon": lattice[4][1], "plugs": [("DCFC", 2, True)]}]
    vehicles = []
    for k in range(n_v):
        c = lattice[rng.randrange(len(lattice))]
        v = {"id": f"v{k+1}", "lat": c[0], "lon": c[1], "mech": rng.choice(["leaf_50", "leaf_50", "toyota_corolla"]),
             "soc": rng.choice([0.04, 0.055, 0.0562, 0.06, 0.3, 0.9])}
        if rng.random() < 0.3:
            v["schedule"] = rng.choice(["on", "off"])
            v["home_base"] = "b1"
        vehicles.append(v)
        if use_fleets:
            for f in rng.choice([[], ["fa"], ["fb"], ["fa", "fb"]]):
                fl[f]["vehicles"].append(v["id"])
    preload = []
    for k in range(n_r):
        o = lattice[rng.randrange(len(lattice))]
        d = lattice[rng.randrange(len(lattice))]
        preload.append({"id": f"r{k+1}", "o": o, "d": d, "dep": 0, "pax": 1, "fleet": rng.choice(["fa", "fb"]) if use_fleets else None})
    states = rng.choice([["Idle", "Repositioning"], ["Idle", "Repositioning"], ["idle", "repositioning", "reservebase", "chargingbase", "dispatchbase"],
                         ["Idle"]])
    later = []
    disp: Dict[str, Any] = {"valid_dispatch_states": states}
    if len(states) > 2:
        # parked and base-charging vehicles are dispatchable in this configuration: let idle vehicles go home quickly and
        # let more requests arrive once they are parked
        disp["idle_time_out_seconds"] = 60
        if rng.random() < 0.5:
            # "never hold vehicles at the base": the base threshold at or below the matching threshold (default 20 km)
            disp["base_charging_range_km_threshold"] = rng.choice([0, 10, 20])
        for k in range(rng.randint(2, 5)):
            o = lattice[rng.randrange(len(lattice))]
            d = lattice[rng.randrange(len(lattice))]
            later.append({"id": f"l{k+1}", "o": o, "d": d, "dep": dt * rng.randint(6, 13), "pax": 1,
                          "fleet": rng.choice(["fa", "fb"]) if use_fleets else None})
        later.sort(key=lambda r: (r["dep"], r["id"]))
    if len(states) > 2 and "base_charging_range_km_threshold" in disp and rng.random() < 0.6:
        # the depot: autonomous vehicles low on charge standing at the base, no public station to be sent to - they park,
        # plug in at the base and are still below the matching range when the later requests arrive next to them
        stations = stations[:1]
        disp["base_charging_range_km_threshold"] = rng.choice([0, 10])
        vehicles = [v for v in vehicles if "schedule" not in v][:2]
        for v in vehicles:
            v["soc"] = rng.choice([0.3, 0.9])
            v["lat"], v["lon"] = lattice[-1]                       # the healthy ones are far away
        for k in range(rng.randint(2, 4)):
            vehicles.append({"id": f"d{k+1}", "lat": b[0], "lon": b[1], "mech": "leaf_50", "soc": rng.choice([0.02, 0.032, 0.04, 0.05])})
        if use_fleets:
            for v in vehicles:
                if v["id"].startswith("d"):
                    for f in rng.choice([["fa"], ["fb"], ["fa", "fb"]]):
                        fl[f]["vehicles"].append(v["id"])
        preload = preload[:2]
        for r in later:
            r["o"] = lattice[rng.randrange(3)]
    if rng.random() < 0.25:
        disp["max_search_radius_km"] = rng.choice([1.0, 0.2])      # a search radius smaller than some vehicle-request distances
    if rng.random() < 0.4:
        # the charging threshold is a different number than the matching threshold (both default to 20 km)
        disp["charging_range_km_threshold"] = rng.choice([5, 35])
        if rng.random() < 0.5:
            disp["matching_range_km_threshold"] = rng.choice([10, 30])
    w = {"name": "match", "dt": dt, "start": 0, "end": dt * n_steps, "cancel": 600, "vehicles": vehicles, "requests": later,
         "preload": preload, "stations": stations, "bases": bases, "focus": "match",
         "schedules": [("on", "00:00:00", "23:00:00"), ("off", "23:30:00", "23:40:00")],
         "dispatcher": disp}
    if use_fleets:
        w["fleets"] = fl
    return w


def gen_tie_world(rng: random.Random, n_steps: int) -> Dict[str, Any]:
    """built to be sensitive to iteration order: vehicles in several fleets, a station whose plug types rank equally,
    stations at exactly equal grid distance in different search cells, overlapping price regions in one window,
    requests of equal value, human and autonomous drivers, low charge so that the charging manager searches"""
    import h3

    dt = 60
    c0 = world.at(0, 0)
    g0 = h3.geo_to_h3(c0[0], c0[1], 15)
    # two cells at the same grid distance from the vehicles' cell, in two different search cells that are both
    # neighbours of (and different from) the vehicles' search cell: a ring search meets them in the same ring
    home = h3.h3_to_parent(g0, 7)
    neigh = sorted(h3.k_ring(home, 1) - {home})
    rng.shuffle(neigh)
    ga = h3.h3_to_center_child(neigh[0], 15)
    dist = h3.h3_distance(g0, ga)
    on_ring = h3.hex_ring(g0, dist)
    gb = None
    for other in neigh[1:]:
        cand = sorted(g for g in on_ring if h3.h3_to_parent(g, 7) == other)
        if cand:
            gb = cand[len(cand) // 2]
            break
    if gb is None:
        gb = sorted(on_ring)[0]
    pa, pb = h3.h3_to_geo(ga), h3.h3_to_geo(gb)
    use_fleets = rng.random() < 0.6
    fl = {"fa": {"vehicles": [], "stations": [], "bases": []}, "fb": {"vehicles": [], "stations": [], "bases": []}}
    stations = [
        {"id": "sa", "lat": pa[0], "lon": pa[1], "plugs": [("LEVEL_1", 2, True), ("LEVEL_2", 2, True), ("DCFC", 2, True)]},
        {"id": "sb", "lat": pb[0], "lon": pb[1], "plugs": [("DCFC", 2, True), ("LEVEL_2", 2, True), ("LEVEL_1", 2, True)]},
        {"id": "bs1", "lat": c0[0], "lon": c0[1], "plugs": [("LEVEL_2", 3, False)]},
    ]
    bases = [{"id": "b1", "lat": c0[0], "lon": c0[1], "station": "bs1", "stalls": 4}]
    vehicles = []
    for k in range(rng.randint(4, 7)):
        c = world.at(rng.uniform(-60, 60), rng.uniform(-60, 60)) if k > 2 else c0
        v = {"id": rng.choice(["cab", "v", "x", "taxi"]) + f"{k+1}", "lat": c[0], "lon": c[1], "mech": "leaf_50",
             "soc": rng.choice([0.07, 0.09, 0.12, 0.5, 0.8]) if k > 1 else 0.055}
        if k >= 3 and rng.random() < 0.5:
            v["schedule"] = "day"
            v["home_base"] = "b1"
            v["lat"], v["lon"] = c0          # human drivers start at home: parked until the shift begins
            v["soc"] = 0.8
        vehicles.append(v)
        if use_fleets:
            for f in rng.choice([["fa"], ["fb"], ["fa", "fb"], ["fa", "fb"], []]):
                fl[f]["vehicles"].append(v["id"])
    requests = []
    for k in range(rng.randint(8, 20)):
        o = world.at(rng.uniform(-300, 300), rng.uniform(-300, 300))
        d = world.at(rng.uniform(-300, 300), rng.uniform(-300, 300))
        requests.append({"id": f"q{k+1:02d}", "o": o, "d": d, "dep": (rng.randrange(dt * 12, dt * n_steps * 2 // 3) // dt) * dt, "pax": 1,
                         "fleet": rng.choice(["fa", "fb"]) if use_fleets else None})
    # equally dense clusters of early requests in three different search cells (a tie for "the densest request hex"
    # that human drivers leaving their base head for), far enough away to stay unserved for a while
    for ci, cell in enumerate(neigh[:3]):
        cc = h3.h3_to_geo(h3.h3_to_center_child(cell, 15))
        for j in range(2):
            o = (cc[0] + 0.0004 * j, cc[1] + 0.0003 * j)
            requests.append({"id": f"far{ci}{j}", "o": o, "d": (o[0] + 0.002, o[1]), "dep": 0, "pax": 1,
                             "fleet": rng.choice(["fa", "fb"]) if use_fleets else None})
    requests.sort(key=lambda r: (r["dep"], r["id"]))
    # overlapping regions (coarse and search resolution around station sa) priced differently in the same window
    prices = []
    for t in (0, dt * (n_steps // 2)):
        for res, price in ((5, 0.06), (6, 0.08), (7, 0.10)):
            for cid in ("DCFC", "LEVEL_2", "LEVEL_1"):
                prices.append({"time": t, "target": h3.h3_to_parent(ga, res), "charger_id": cid, "price": price + (0.01 if t else 0.0)})
                prices.append({"time": t, "target": h3.h3_to_parent(gb, res), "charger_id": cid, "price": price + (0.01 if t else 0.0)})
    w = {"name": "ties", "dt": dt, "start": 0, "end": dt * n_steps, "cancel": 3000, "vehicles": vehicles, "requests": requests,
         "stations": stations, "bases": bases, "prices": prices, "price_key": "geoid", "focus": "ties",
         "schedules": [("day", _hms(dt * 6), _hms(dt * (n_steps - 5)))], "rate": (3.0, 0.0, 3.0),      # equal request values
         "dispatcher": {"charging_range_km_threshold": 20, "charging_range_km_soft_threshold": 60}}
    if rng.random() < 0.6:
        # plug types that charge these vehicles equally fast (150 kW and 50 kW plugs, vehicles that accept 50 kW): a tie
        # between plug types of one station for whoever ranks them by time
        w["chargers"] = [("LEVEL_1", "electric", 3.3, "kilowatts"), ("LEVEL_2", "electric", 7.2, "kilowatts"),
                         ("DCFC", "electric", 50, "kilowatts"), ("GAS_PUMP", "gasoline", 0.16, "gal_per_second"),
                         ("DC150", "electric", 150, "kilowatts"), ("ADC150", "electric", 150, "kilowatts")]
        for s_ in stations[:2]:
            s_["plugs"] = s_["plugs"] + [("DC150", 2, True), ("ADC150", 2, True)]
    if rng.random() < 0.7:
        # one lot listed as several stations (one per operator): candidates of exactly equal rank inside ONE search cell
        twins = [dict(stations[0], id="sa_twin"), dict(stations[0], id="a_lot")]
        stations.extend(twins)
        if use_fleets:
            fl["fa"]["stations"].append("sa")
            fl["fb"]["stations"].append("sa_twin")          # a_lot stays public
    if use_fleets:
        w["fleets"] = fl
    return w


def gen_world(rng: random.Random, *, n_steps: int = 40, fleets: Optional[bool] = None, humans: bool = True,
              dt: Optional[int] = None, tight: bool = True, focus: Optional[str] = None, osm: bool = False,
              pool: bool = False, variant: Optional[str] = None, far: bool = False, dry: bool = False,
              away: bool = False, split_rows: bool = False) -> Dict[str, Any]:
    """a small world built to make vehicles contend: few plugs and stalls, co-located entities, low charge"""
    if split_rows:
        w_ = gen_world(rng, n_steps=n_steps, fleets=fleets, humans=humans, dt=dt, tight=tight, focus=focus, osm=osm, pool=pool,
                       variant=variant, far=far, dry=dry, away=away)
        w_["split_rows"] = True
        return w_
    if focus == "queue":
        return gen_queue_world(rng, n_steps, variant)
    if focus == "energy":
        return gen_energy_world(rng, n_steps, dt)
    if focus == "shift":
        return gen_shift_world(rng, n_steps, dt)
    if focus == "inputs":
        return gen_input_world(rng, n_steps, dt)
    if focus == "fleet":
        return gen_fleet_world(rng, n_steps, variant)
    if focus == "dispatch":
        return gen_dispatch_world(rng, n_steps)
    if focus == "match":
        return gen_match_world(rng, n_steps)
    if focus == "ties":
        return gen_tie_world(rng, n_steps)
    if focus == "whatif":
        return gen_whatif_world(rng, n_steps)
    dt = dt or rng.choice([30, 60, 60, 120])
    ncell = rng.randint(3, 5)
    # cells 300..1500 m apart (one to three steps at 40 km/h and dt = 60)
    pts = []
    while len(pts) < ncell:
        span = 5400 if far else 900        # far: journeys of many steps
        p = (rng.uniform(-span, span), rng.uniform(-span, span))
        if all((p[0] - q[0]) ** 2 + (p[1] - q[1]) ** 2 > 250 ** 2 for q in pts):
            pts.append(p)
    cells = [world.at(x, y) for (x, y) in pts]
    use_fleets = rng.random() < 0.4 if fleets is None else fleets
    fleet_ids = ["fa", "fb"] if use_fleets else []

    stations, bases = [], []
    n_st = rng.randint(1, 3)
    elec = ["LEVEL_1", "LEVEL_2", "DCFC"]
    for k in range(n_st):
        c = cells[k % ncell]
        types = rng.sample(elec, rng.randint(1, 2))
        if rng.random() < 0.5:
            types.append("GAS_PUMP")
        stations.append({"id": f"s{k+1}", "lat": c[0], "lon": c[1],
                         "plugs": [(t, rng.randint(1, 2) if tight else 5, rng.random() < 0.8) for t in types]})
    n_b = rng.randint(1, 2)
    remote: List[Any] = []          # where the stations stand that serve a base from another location
    for k in range(n_b):
        c = cells[(k + 1) % ncell]
        st = None
        if rng.random() < 0.7:
            st = f"bs{k+1}"
            # now and then the station that serves the base is registered at ANOTHER location (nothing forbids it)
            sc = cells[(k + 2) % ncell] if rng.random() < 0.25 else c
            if sc is not c:
                remote.append(sc)
            stations.append({"id": st, "lat": sc[0], "lon": sc[1],
                             "plugs": [(rng.choice(["LEVEL_1", "LEVEL_2"]), rng.randint(1, 2), False)]})
        bases.append({"id": f"b{k+1}", "lat": c[0], "lon": c[1], "station": st,
                      "stalls": 1 if away else rng.randint(1, 2) if tight else 5})      # away: bases are full most of the time
    vehicles = []
    n_v = rng.randint(3, 7)
    schedules = [("early", "00:00:00", _hms(dt * (n_steps // 3))), ("late", _hms(dt * (n_steps // 4)), _hms(dt * (3 * n_steps // 4)))]
    for k in range(n_v):
        c = cells[rng.randrange(ncell)]
        ice = rng.random() < 0.25
        v = {"id": f"v{k+1}", "lat": c[0], "lon": c[1], "mech": "toyota_corolla" if ice else "leaf_50",
             "soc": rng.choice([0.004, 0.03, 0.2, 0.6, 0.995, 1.0])}
        if dry:
            v["soc"] = rng.uniform(0.002, 0.012)        # a kilometre or three: these vehicles run dry on the road
        elif away:
            v["soc"] = rng.choice([0.6, 0.8, 0.995])    # everybody can be matched
        if humans and rng.random() < 0.3:
            v["schedule"] = rng.choice(["early", "late"])
            v["home_base"] = rng.choice(bases)["id"]
        vehicles.append(v)
    for k, sc in enumerate(remote):
        # somebody is standing at such a station: AT the plugs that serve the base, but not at the base
        vehicles.append({"id": f"vr{k+1}", "lat": sc[0], "lon": sc[1], "mech": "leaf_50", "soc": rng.choice([0.2, 0.6])})
    requests = []
    n_r = rng.randint(10, 18) if away else rng.randint(4, 16)
    t_end = dt * n_steps
    for k in range(n_r):
        o = cells[rng.randrange(ncell)]
        d = cells[rng.randrange(ncell)]
        if rng.random() < (0.1 if away else 0.7):      # away: vehicles spend several steps on their way to a request
            # near a vehicle: immediate pickups
            vv = rng.choice(vehicles)
            o = (vv["lat"], vv["lon"])
        dep = rng.randrange(0, max(1, int(t_end * 0.8)))
        if rng.random() < 0.5:
            dep = (dep // dt) * dt
        requests.append({"id": f"r{k+1:02d}", "o": o, "d": d, "dep": dep, "pax": rng.randint(1, 2),
                         "fleet": rng.choice(fleet_ids) if fleet_ids else None,
                         "pool": bool(pool and rng.random() < 0.25)})      # requests that allow pooling (finding F15)
    spoil_memberships(requests, rng, bool(fleet_ids))
    requests.sort(key=lambda r: (r["dep"], r["id"]))
    w: Dict[str, Any] = {
        "name": "adv", "dt": dt, "start": 0, "end": t_end, "cancel": t_end if away else rng.choice([3 * dt, 5 * dt, 600]),   # away: patient customers
        "vehicles": vehicles, "requests": requests, "stations": stations, "bases": bases,
        "schedules": schedules, "rate": (rng.choice([1.0, 2.2]), rng.choice([0.0, 1.6]), rng.choice([0.0, 5.0])),
    }
    if fleet_ids:
        fl = {f: {"vehicles": [], "stations": [], "bases": []} for f in fleet_ids}
        for v in vehicles:
            for f in fleet_ids:
                if rng.random() < 0.55:
                    fl[f]["vehicles"].append(v["id"])
        for s in stations:
            for f in fleet_ids:
                if rng.random() < 0.35:
                    fl[f]["stations"].append(s["id"])
        for b in bases:
            for f in fleet_ids:
                if rng.random() < 0.3:
                    fl[f]["bases"].append(b["id"])
        w["fleets"] = fl
    # tariff: every station named in every window (see finding F5a), prices change mid-run
    prices = []
    for t in sorted({0, dt * (n_steps // 3), dt * (n_steps // 2) + 7}):
        for s in stations:
            for (cid, _, _) in s["plugs"]:
                prices.append({"time": t, "target": s["id"], "charger_id": cid, "price": rng.choice([0.0, 0.05, 0.2, 0.5])})
    w["prices"] = prices
    w["price_key"] = "station_id"
    if osm:
        w["osm"] = str(world.SCEN_DENVER / "road_network" / "downtown_denver_network.json")
    return w


def _hms(sec: int) -> str:
    sec = sec % 86400
    return f"{sec // 3600:02d}:{(sec % 3600) // 60:02d}:{sec % 60:02d}"
