"""./check <Cnn> [--tier quick|thorough] [--replay file]"""
from __future__ import annotations

import argparse
import importlib
import json
import os
import sys
import traceback

from hv.common import EXIT_MACHINERY, Ctx, MachineryError

CHECKS = {
    "C02": "hv.checks.fsm", "C03": "hv.checks.fsm", "C07": "hv.checks.fsm", "C09": "hv.checks.fsm",
    "C10": "hv.checks.fsm", "C17": "hv.checks.fsm", "C18": "hv.checks.fsm",
    "C04": "hv.checks.fsm", "C05": "hv.checks.fsm", "C06": "hv.checks.fsm", "C20": "hv.checks.fsm",
    "C08": "hv.checks.c08", "C11": "hv.checks.c11", "C12": "hv.checks.c12", "C13": "hv.checks.c13", "C14": "hv.checks.c13", "C01": "hv.checks.c01", "C15": "hv.checks.c15", "C16": "hv.checks.c15", "C19": "hv.checks.c19",
}


def main() -> int:
    ap = argparse.ArgumentParser()
    ap.add_argument("prop")
    ap.add_argument("--tier", default=os.environ.get("VERIF_TIER", "quick"), choices=["quick", "thorough"])
    ap.add_argument("--replay", default=None)
    a = ap.parse_args()
    seed = int(os.environ.get("VERIF_SEED", "0") or 0)
    if a.prop not in CHECKS:
        print(f"no check registered for {a.prop}")
        return EXIT_MACHINERY
    mod = importlib.import_module(CHECKS[a.prop])
    ctx = Ctx(a.prop, a.tier, seed)
    try:
        if a.replay:
            rec = json.load(open(a.replay))
            # same tier and seed as the run that produced the finding; no evidence file is written
            ctx = Ctx(a.prop, rec.get("tier", a.tier), int(rec.get("seed", seed) or 0))
            ctx.replay_mode = True
            return mod.replay(ctx, rec)
        mod.run(ctx)
        return ctx.finish()
    except MachineryError as e:
        print(f"MACHINERY-FAILURE property={a.prop}: {e}", flush=True)
        return EXIT_MACHINERY
    except Exception:
        traceback.print_exc()
        print(f"MACHINERY-FAILURE property={a.prop}: unexpected exception", flush=True)
        return EXIT_MACHINERY


if __name__ == "__main__":
    sys.exit(main())
