"""Observing runs for the lock-step agreement specification HiveAgree.tla (C01, C15, C16): canonical per-step
observations, worker processes (one per interpreter hash seed / run variant), merging into agreement logs."""
from __future__ import annotations

import json
import os
import subprocess
import sys
import time
from pathlib import Path
from typing import Any, Dict, List, Optional, Sequence, Tuple

from hv import tracer
from hv.common import REPO, ROOT, Ctx, MachineryError

DROP_REPORT_KEYS = {"session_id", "instance_id"}


def canon_value(v: Any) -> Any:
    """members of set-valued fields in sorted order; memberships as sorted lists"""
    if hasattr(v, "memberships"):
        return sorted(v.memberships)
    if isinstance(v, (set, frozenset)):
        return sorted(str(x) for x in v)
    if isinstance(v, (list, tuple)):
        if all(isinstance(x, str) for x in v):
            return sorted(v)
        return [canon_value(x) for x in v]
    if isinstance(v, float):
        return repr(v)
    if isinstance(v, (int, str, bool)) or v is None:
        return v
    if isinstance(v, dict):
        return {str(k): canon_value(x) for k, x in sorted(v.items(), key=lambda kv: str(kv[0]))}
    return str(v)


def canon_report(rep) -> str:
    d = {"report_type": rep.report_type.name.lower()}
    for k, v in rep.report.items():
        if k in DROP_REPORT_KEYS:
            continue
        if k == "fleet_id" and isinstance(v, str) and "," in v:
            v = ",".join(sorted(v.split(",")))
        d[str(k)] = canon_value(v)
    return json.dumps(d, sort_keys=True, separators=(",", ":"))


def full_state(sim, env) -> Dict[str, str]:
    """entity id -> canonical text of its projection (floats kept exactly: repr)"""
    out: Dict[str, str] = {}
    for v in sim.vehicles.values():
        r = tracer.project_vehicle(v, env, with_route=False)
        et = list(v.energy.keys())[0]
        r.update({"en_x": repr(v.energy[et]), "bal_x": repr(v.balance), "odo_x": repr(v.distance_traveled_km)})
        out["veh:" + v.id] = json.dumps(r, sort_keys=True, separators=(",", ":"))
    for s in sim.stations.values():
        r = tracer.project_station(s)
        r["bal_x"] = repr(s.balance)
        out["st:" + s.id] = json.dumps(r, sort_keys=True, separators=(",", ":"))
    for b in sim.bases.values():
        out["bs:" + b.id] = json.dumps(tracer.project_base(b), sort_keys=True, separators=(",", ":"))
    for q in sim.requests.values():
        out["req:" + q.id] = json.dumps(tracer.project_request(q), sort_keys=True, separators=(",", ":"))
    out["clock"] = str(int(sim.sim_time))
    return out


class Observer:
    """hook sink: one observation per completed step = the entities whose canonical text changed + the step's reports"""

    def __init__(self):
        self.prev: Dict[str, str] = {}
        self.reports: List[str] = []
        self.obs: List[Dict[str, Any]] = []

    def __call__(self, event: str, **f: Any) -> None:
        if event == "report":
            self.reports.append(canon_report(f["report"]))
        elif event == "step_end":
            self.snapshot(f["payload"].s, f["payload"].e)

    def snapshot(self, sim, env) -> None:
        cur = full_state(sim, env)
        delta = [[k, v] for k, v in sorted(cur.items()) if self.prev.get(k) != v]
        delta += [[k, "<removed>"] for k in sorted(set(self.prev) - set(cur))]
        self.prev = cur
        self.obs.append({"state": delta, "reports": sorted(self.reports)})
        self.reports = []


def summary_obs(rp) -> Dict[str, Any]:
    stats = rp.e.reporter.get_summary_stats(rp) or {}
    return {"state": [[str(k), json.dumps(canon_value(v), sort_keys=True)] for k, v in sorted(stats.items(), key=lambda kv: str(kv[0]))],
            "reports": []}


# ---------------------------------------------------------------------------------------------
# worker side


def load_job_payload(job: Dict[str, Any], work: Path):
    from hv import adv, runs, world
    import random

    if job["src"] == "shipped":
        rp = world.load(Path(job["scenario"]), work / "out", suffix=job["id"], sim_overrides=job.get("sim_overrides"))
    else:
        rng = random.Random(job["seed"])
        w = adv.gen_world(rng, n_steps=job["steps"], **(job.get("world_kwargs") or {}))
        scen = world.write_world(work / f"world_{job['id']}", w)
        rp = world.load(scen, work / "out", suffix=job["id"], lazy=bool(w.get("lazy")))
        if w.get("preload"):
            rp = runs.preload_requests(rp, w["preload"])
        mix = job.get("mix", "builtin")
        gens: List[Any] = []
        for k, part in enumerate(mix.split("+")):
            if part == "adv":
                gens.append(adv.Adversary(job["seed"] * 7 + k, label=f"Adversary{k}", p_instr=0.3))
            elif part == "counter":
                gens.append(adv.CountingGenerator())
            else:
                from nrel.hive.dispatcher.instruction_generator.charging_fleet_manager import ChargingFleetManager
                from nrel.hive.dispatcher.instruction_generator.dispatcher import Dispatcher

                gens += [Dispatcher(rp.e.config.dispatcher), ChargingFleetManager(rp.e.config.dispatcher)]
        rp = runs.set_generators(rp, gens)
    return rp


def observe_run(job: Dict[str, Any], work: Path) -> Dict[str, Any]:
    """execute one run variant and return its observations"""
    from nrel.hive.app import hive_cosim
    from nrel.hive.runner.local_simulation_runner import LocalSimulationRunner
    from nrel.hive.util import verif_hooks

    if not verif_hooks.ENABLED:
        raise RuntimeError("hooks disabled")
    rp = load_job_payload(job, work)
    ob = Observer()
    verif_hooks.install(ob)
    extra: Dict[str, Any] = {}
    try:
        split = job.get("split") or [job["steps"]]
        if split == "runner":
            cfg = rp.e.config.sim
            start, end, dt = int(cfg.start_time), int(cfg.end_time), int(cfg.timestep_duration_seconds)
            out = LocalSimulationRunner.run(rp)
            before = LocalSimulationRunner.step(rp)           # a fresh payload before the end time must step
            extra["runner"] = {"k": "runner", "id": job["id"], "start": start, "end": end, "dt": dt, "steps_run": len(ob.obs) - (1 if before is not None else 0),
                               "final_time": int(out.s.sim_time), "refused_beyond_end": LocalSimulationRunner.step(out) is None,
                               "stepped_before_end": (before is not None) or start >= end}
            if before is not None:
                ob.obs.pop()                                   # the probe step is not part of the run
            rp = out
        else:
            for n in split:
                rp = hive_cosim.crank(rp, n).runner_payload
    finally:
        verif_hooks.install(None)
    return {"id": job["id"], "label": job["label"], "obs": ob.obs, "summary": summary_obs(rp), **extra}


def worker_main() -> int:
    spec = json.loads(Path(sys.argv[1]).read_text())
    work = Path(spec["work"])
    work.mkdir(parents=True, exist_ok=True)
    out = {}
    for job in spec["jobs"]:
        try:
            out[job["id"] + "|" + job["label"]] = observe_run(job, work)
        except Exception as e:
            import traceback

            tb = traceback.extract_tb(e.__traceback__)
            repo = str(REPO).rstrip("/") + "/"
            out[job["id"] + "|" + job["label"]] = {"id": job["id"], "label": job["label"], "error": repr(e),
                                                   "origin": "repo" if tb and tb[-1].filename.startswith(repo) else "harness",
                                                   "trace": traceback.format_exc()[-1500:]}
    Path(spec["out"]).write_text(json.dumps(out))
    return 0


# ---------------------------------------------------------------------------------------------
# driver side


def run_workers(ctx: Ctx, groups: List[Tuple[str, List[Dict[str, Any]]]], timeout: int = 3000) -> Dict[str, Dict[str, Any]]:
    """groups: (PYTHONHASHSEED, jobs) - one process each"""
    procs = []
    batch = getattr(ctx, "_agree_batches", 0)
    ctx._agree_batches = batch + 1
    for k, (hashseed, jobs) in enumerate(groups):
        spec = {"work": str(ctx.work / f"ag{batch}_{k}"), "out": str(ctx.work / f"ag{batch}_{k}.json"), "jobs": jobs}
        sp = ctx.work / f"agjob{batch}_{k}.json"
        sp.write_text(json.dumps(spec))
        env = dict(os.environ)
        env.update({"PYTHONPATH": f"{ROOT}:{REPO}", "NREL_HIVE_VERIF": "1", "PYTHONHASHSEED": str(hashseed),
                    "PYTHONWARNINGS": "ignore", "PYTHONDONTWRITEBYTECODE": "1"})
        p = subprocess.Popen([sys.executable, "-W", "ignore", "-c", "import sys; from hv.agree import worker_main; sys.exit(worker_main())", str(sp)],
                             cwd=str(ROOT), env=env, stdout=subprocess.PIPE, stderr=subprocess.STDOUT, text=True)
        procs.append((p, spec))
    results: Dict[str, Dict[str, Any]] = {}
    deadline = time.time() + timeout
    for p, spec in procs:
        try:
            out, _ = p.communicate(timeout=max(1, deadline - time.time()))
        except subprocess.TimeoutExpired:
            p.kill()
            raise MachineryError("agreement worker timed out")
        if p.returncode != 0:
            raise MachineryError(f"agreement worker failed: {out[-2500:]}")
        results.update(json.loads(Path(spec["out"]).read_text()))
    for key, r in results.items():
        if "error" in r and r.get("origin") != "repo":
            raise MachineryError(f"harness failure in {key}: {r['error']}\n{r['trace']}")
    return results


def merge(path: Path, scen_id: str, runs: List[Dict[str, Any]], prop: str, clause: str, with_summary: bool = True) -> int:
    """write the agreement log of one scenario: one line per step with the observation of every run"""
    labels = [r["label"] for r in runs]
    n = min(len(r["obs"]) for r in runs)
    lines = 0
    with Path(path).open("a") as f:
        for i in range(n):
            f.write(json.dumps({"k": "step", "prop": prop, "clause": clause, "scen": scen_id, "i": i, "labels": labels,
                                "vals": [r["obs"][i] for r in runs]}, separators=(",", ":")) + "\n")
            lines += 1
        # runs of different length disagree by definition
        lens = [{"state": [["steps", str(len(r["obs"]))]], "reports": []} for r in runs]
        f.write(json.dumps({"k": "length", "prop": prop, "clause": clause, "scen": scen_id, "i": n, "labels": labels, "vals": lens},
                           separators=(",", ":")) + "\n")
        lines += 1
        if with_summary:
            f.write(json.dumps({"k": "summary", "prop": prop, "clause": "same_summary" if prop == "C01" else clause, "scen": scen_id, "i": n,
                                "labels": labels, "vals": [r["summary"] for r in runs]}, separators=(",", ":")) + "\n")
            lines += 1
    return lines
