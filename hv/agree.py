"""Observing runs for the lock-step agreement specification HiveAgree.tla (C01, C15, C16): canonical per-step
observations, worker processes (one per interpreter hash seed / run variant), merging into agreement logs."""
from __future__ import annotations

import json
import re
import os
import subprocess
import sys
import time
from pathlib import Path
from typing import Any, Dict, List, Optional, Sequence, Tuple

from hv import tracer
from hv.common import REPO, ROOT, Ctx, MachineryError

DROP_REPORT_KEYS = {"session_id", "instance_id"}


_SET_IN_TEXT = re.compile(r"\{([^{}]*)\}")


def canon_text(text: str) -> str:
    """a set printed inside a text (e.g. "Membership(memberships=frozenset({'b', 'a'}))", "{'x', 'y'}") with its members in
    sorted order: the statement allows the members of a set-valued field to be printed in any order"""
    def _sorted(m):
        inner = m.group(1)
        if ":" in inner:          # a dict literal: leave alone
            return m.group(0)
        return "{" + ", ".join(sorted(x.strip() for x in inner.split(","))) + "}"

    return _SET_IN_TEXT.sub(_sorted, text) if "{" in text else text


def canon_value(v: Any) -> Any:
    """members of set-valued fields in sorted order; memberships as sorted lists"""
    if hasattr(v, "memberships"):
        return sorted(v.memberships)
    if isinstance(v, (set, frozenset)):
        return sorted(str(x) for x in v)
    if isinstance(v, (list, tuple)):
        if all(isinstance(x, str) for x in v):
            return sorted(v)
        return [canon_value(x) for x in v]
    if isinstance(v, float):
        return repr(v)
    if isinstance(v, str):
        return canon_text(v)
    if isinstance(v, (int, bool)) or v is None:
        return v
    if isinstance(v, dict):
        return {str(k): canon_value(x) for k, x in sorted(v.items(), key=lambda kv: str(kv[0]))}
    return str(v)


def canon_report(rep) -> str:
    d = {"report_type": rep.report_type.name.lower()}
    for k, v in rep.report.items():
        if k in DROP_REPORT_KEYS:
            continue
        # memberships are sets: hive prints them comma-joined in whatever order the set iterates
        if isinstance(v, str) and "," in v and re.search(r"fleet|member", str(k), re.I):
            v = ",".join(sorted(x.strip() for x in v.split(",")))
        d[str(k)] = canon_value(v)
    return json.dumps(d, sort_keys=True, separators=(",", ":"))


def full_state(sim, env) -> Dict[str, str]:
    """entity id -> canonical text of its projection (floats kept exactly: repr)"""
    out: Dict[str, str] = {}
    for v in sim.vehicles.values():
        r = tracer.project_vehicle(v, env, with_route=False)
        et = list(v.energy.keys())[0]
        r.update({"en_x": repr(v.energy[et]), "bal_x": repr(v.balance), "odo_x": repr(v.distance_traveled_km)})
        out["veh:" + v.id] = json.dumps(r, sort_keys=True, separators=(",", ":"))
    for s in sim.stations.values():
        r = tracer.project_station(s)
        r["bal_x"] = repr(s.balance)
        out["st:" + s.id] = json.dumps(r, sort_keys=True, separators=(",", ":"))
    for b in sim.bases.values():
        out["bs:" + b.id] = json.dumps(tracer.project_base(b), sort_keys=True, separators=(",", ":"))
    for q in sim.requests.values():
        out["req:" + q.id] = json.dumps(tracer.project_request(q), sort_keys=True, separators=(",", ":"))
    out["clock"] = str(int(sim.sim_time))
    return out


class Observer:
    """hook sink: one observation per completed step = the entities whose canonical text changed + the step's reports"""

    def __init__(self):
        self.prev: Dict[str, str] = {}
        self.reports: List[str] = []
        self.obs: List[Dict[str, Any]] = []

    def __call__(self, event: str, **f: Any) -> None:
        if event == "report":
            self.reports.append(canon_report(f["report"]))
        elif event == "step_end":
            self.snapshot(f["payload"].s, f["payload"].e)

    def snapshot(self, sim, env) -> None:
        cur = full_state(sim, env)
        delta = [[k, v] for k, v in sorted(cur.items()) if self.prev.get(k) != v]
        delta += [[k, "<removed>"] for k in sorted(set(self.prev) - set(cur))]
        self.prev = cur
        self.obs.append({"state": delta, "reports": sorted(self.reports)})
        self.reports = []


def summary_obs(rp) -> Dict[str, Any]:
    stats = rp.e.reporter.get_summary_stats(rp) or {}
    out = [[str(k), json.dumps(canon_value(v), sort_keys=True)] for k, v in sorted(stats.items(), key=lambda kv: str(kv[0]))]
    # the table of charge events a co-simulation user reads from the handler hive_cosim.load_scenario installs
    from nrel.hive.reporting.handler.vehicle_charge_events_handler import VehicleChargeEventsHandler

    for h in rp.e.reporter.handlers:
        if isinstance(h, VehicleChargeEventsHandler):
            ev = h.get_events()
            cols = [c for c in sorted(ev.keys()) if c not in ("session_id", "instance_id")]      # per-run random tags
            rows = sorted(json.dumps([canon_value(ev[c][i]) for c in cols], sort_keys=True) for i in range(len(ev[cols[0]]) if cols else 0))
            out.append(["<cosim charge events>", json.dumps([cols, len(rows), rows[:400]])])
    return {"state": out, "reports": []}


# ---------------------------------------------------------------------------------------------
# worker side


def load_job_payload(job: Dict[str, Any], work: Path):
    from hv import adv, runs, world
    import random

    if job["src"] == "shipped":
        rp = world.load(Path(job["scenario"]), work / "out", suffix=job["id"], sim_overrides=job.get("sim_overrides"))
    else:
        rng = random.Random(job["seed"])
        w = adv.gen_world(rng, n_steps=job["steps"], **(job.get("world_kwargs") or {}))
        if job.get("dispatcher"):
            w["dispatcher"] = dict(w.get("dispatcher") or {}, **job["dispatcher"])
        scen = world.write_world(work / f"world_{job['id']}", w)
        rp = world.load(scen, work / "out", suffix=job["id"], lazy=bool(w.get("lazy")))
        if w.get("preload"):
            rp = runs.preload_requests(rp, w["preload"])
        mix = job.get("mix", "builtin")
        gens: List[Any] = []
        for k, part in enumerate(mix.split("+")):
            if part == "adv":
                gens.append(adv.Adversary(job["seed"] * 7 + k, label=f"Adversary{k}", p_instr=job.get("p_instr", 0.3), kinds=job.get("kinds")))
            elif part == "counter":
                gens.append(adv.CountingGenerator())
            elif part == "dice":
                gens.append(adv.DiceGenerator())
            elif part == "plan":
                gens.append(adv.FixedPlan(job["seed"] * 7 + k))
            elif part == "charge":
                gens.append(adv.ChargeDriver(job["seed"] * 7 + k))
            elif part == "queue":
                gens.append(adv.QueueDriver(job["seed"] * 7 + k))
            else:
                from nrel.hive.dispatcher.instruction_generator.charging_fleet_manager import ChargingFleetManager
                from nrel.hive.dispatcher.instruction_generator.dispatcher import Dispatcher

                gens += [Dispatcher(rp.e.config.dispatcher), ChargingFleetManager(rp.e.config.dispatcher)]
        rp = runs.set_generators(rp, gens)
        if "dice" in mix.split("+"):
            random.seed(job["seed"])      # the user seeds the global stream once, after loading
    if job.get("throttle"):
        # a co-simulation user has throttled some plugs (station-local charger rates differ from the factory rates)
        import random as _r

        from returns.result import Failure

        from nrel.hive.state.simulation_state import simulation_state_ops

        rng2 = _r.Random(job.get("seed", 1) + 17)
        sim = rp.s
        for sid in sorted(sim.stations.keys()):
            st = sim.stations[sid]
            for cid in sorted(st.state.keys()):
                if rng2.random() < 0.6:
                    res = st.set_charger_rate(cid, rp.e.chargers[cid].rate * rng2.choice([0.3, 0.45, 0.8]))
                    if not isinstance(res, Failure):
                        st = res.unwrap()
            r2 = simulation_state_ops.modify_station_safe(sim, st)
            if not isinstance(r2, Failure):
                sim = r2.unwrap()
        rp = rp._replace(s=sim)
    if job.get("end_override"):
        # an interval that is not a whole number of steps: the last step is a partial one
        from nrel.hive.model.sim_time import SimTime

        cfg = rp.e.config
        dt = int(cfg.sim.timestep_duration_seconds)
        end = int(cfg.sim.start_time) + dt * (job["steps"] - 1) + 1 + (int(job["end_override"]) % (dt - 1) if dt > 1 else 0)
        rp = rp._replace(e=rp.e._replace(config=cfg._replace(sim=cfg.sim._replace(end_time=SimTime.build(end)))))
    return rp


def touch_generators(rp):
    """the documented co-simulation idiom: take an instruction generator out of the payload and put it (or an updated
    copy) back between two cranks.  Doing so must not change anything."""
    from returns.result import Failure

    from nrel.hive.runner import runner_payload_ops

    # the FIRST generator only (putting every generator back in turn could undo a re-ordering it causes)
    for name in list(rp.u.step_update.instruction_generator_order)[:1]:
        ig = runner_payload_ops.get_instruction_generator_safe(rp, name)
        if isinstance(ig, Failure):
            continue
        upd = runner_payload_ops.update_instruction_generator_safe(rp, ig.unwrap())
        if not isinstance(upd, Failure):
            rp = upd.unwrap()
    # ... and re-installing the very same generators in the same order is an identity too
    rp = runner_payload_ops.set_instruction_generators(rp, tuple(rp.u.step_update.ordered_instruction_generators))
    return rp


def observe_run(job: Dict[str, Any], work: Path) -> Dict[str, Any]:
    """execute one run variant and return its observations"""
    from nrel.hive.app import hive_cosim
    from nrel.hive.runner.local_simulation_runner import LocalSimulationRunner
    from nrel.hive.util import verif_hooks

    if not verif_hooks.ENABLED:
        raise RuntimeError("hooks disabled")
    rp = load_job_payload(job, work)
    ob = Observer()
    verif_hooks.install(ob)
    extra: Dict[str, Any] = {}
    try:
        split = job.get("split") or [job["steps"]]
        if split == "runner":
            cfg = rp.e.config.sim
            start, end, dt = int(cfg.start_time), int(cfg.end_time), int(cfg.timestep_duration_seconds)
            out = LocalSimulationRunner.run(rp)
            n_run = len(ob.obs)
            # stepping the finished payload must be refused (no side effect); a payload before the end time is stepped by
            # the run itself
            extra["runner"] = {"k": "runner", "id": job["id"], "start": start, "end": end, "dt": dt, "steps_run": n_run,
                               "final_time": int(out.s.sim_time), "refused_beyond_end": LocalSimulationRunner.step(out) is None,
                               "stepped_before_end": n_run > 0 or start >= end}
            del ob.obs[n_run:]
            rp = out
        else:
            for k, n in enumerate(split):
                rp = hive_cosim.crank(rp, n).runner_payload
                if job.get("api_touch") and k == 0:
                    rp = touch_generators(rp)
    finally:
        verif_hooks.install(None)
    return {"id": job["id"], "label": job["label"], "obs": ob.obs, "summary": summary_obs(rp), **extra}


def worker_main() -> int:
    spec = json.loads(Path(sys.argv[1]).read_text())
    work = Path(spec["work"])
    work.mkdir(parents=True, exist_ok=True)
    out = {}
    for job in spec["jobs"]:
        try:
            out[job["id"] + "|" + job["label"]] = observe_saved(job, work) if job.get("mode") == "saved" else observe_run(job, work)
        except Exception as e:
            import traceback

            tb = traceback.extract_tb(e.__traceback__)
            repo = str(REPO).rstrip("/") + "/"
            out[job["id"] + "|" + job["label"]] = {"id": job["id"], "label": job["label"], "error": repr(e),
                                                   "origin": "repo" if tb and tb[-1].filename.startswith(repo) else "harness",
                                                   "trace": traceback.format_exc()[-1500:]}
    Path(spec["out"]).write_text(json.dumps(out))
    return 0


# ---------------------------------------------------------------------------------------------
# driver side


def run_workers(ctx: Ctx, groups: List[Tuple[str, List[Dict[str, Any]]]], timeout: int = 3000) -> Dict[str, Dict[str, Any]]:
    """groups: (PYTHONHASHSEED, jobs) - one process each"""
    procs = []
    batch = getattr(ctx, "_agree_batches", 0)
    ctx._agree_batches = batch + 1
    for k, (hashseed, jobs) in enumerate(groups):
        spec = {"work": str(ctx.work / f"ag{batch}_{k}"), "out": str(ctx.work / f"ag{batch}_{k}.json"), "jobs": jobs}
        sp = ctx.work / f"agjob{batch}_{k}.json"
        sp.write_text(json.dumps(spec))
        env = dict(os.environ)
        env.update({"PYTHONPATH": f"{ROOT}:{REPO}", "NREL_HIVE_VERIF": "1", "PYTHONHASHSEED": str(hashseed),
                    "PYTHONWARNINGS": "ignore", "PYTHONDONTWRITEBYTECODE": "1"})
        p = subprocess.Popen([sys.executable, "-W", "ignore", "-c", "import sys; from hv.agree import worker_main; sys.exit(worker_main())", str(sp)],
                             cwd=str(ROOT), env=env, stdout=subprocess.PIPE, stderr=subprocess.STDOUT, text=True)
        procs.append((p, spec))
    results: Dict[str, Dict[str, Any]] = {}
    deadline = time.time() + timeout
    for p, spec in procs:
        try:
            out, _ = p.communicate(timeout=max(1, deadline - time.time()))
        except subprocess.TimeoutExpired:
            p.kill()
            raise MachineryError("agreement worker timed out")
        if p.returncode != 0:
            raise MachineryError(f"agreement worker failed: {out[-2500:]}")
        results.update(json.loads(Path(spec["out"]).read_text()))
    for key, r in results.items():
        if "error" in r and r.get("origin") != "repo":
            raise MachineryError(f"harness failure in {key}: {r['error']}\n{r['trace']}")
    return results


def merge(path: Path, scen_id: str, runs: List[Dict[str, Any]], prop: str, clause: str, with_summary: bool = True) -> int:
    """write the agreement log of one scenario: one line per step with the observation of every run"""
    labels = [r["label"] for r in runs]
    n = min(len(r["obs"]) for r in runs)
    lines = 0
    with Path(path).open("a") as f:
        for i in range(n):
            f.write(json.dumps({"k": "step", "prop": prop, "clause": clause, "scen": scen_id, "i": i, "labels": labels,
                                "vals": [r["obs"][i] for r in runs]}, separators=(",", ":")) + "\n")
            lines += 1
        # runs of different length disagree by definition
        lens = [{"state": [["steps", str(len(r["obs"]))]], "reports": []} for r in runs]
        f.write(json.dumps({"k": "length", "prop": prop, "clause": clause, "scen": scen_id, "i": n, "labels": labels, "vals": lens},
                           separators=(",", ":")) + "\n")
        lines += 1
        if with_summary:
            f.write(json.dumps({"k": "summary", "prop": prop, "clause": "same_summary" if prop == "C01" else clause, "scen": scen_id, "i": n,
                                "labels": labels, "vals": [r["summary"] for r in runs]}, separators=(",", ":")) + "\n")
            lines += 1
    return lines


# ---------------------------------------------------------------------------------------------
# C16: deep fingerprints of retained states


def deep_walk(o: Any, mutable: List[str], path: str = "", depth: int = 0) -> Any:
    """a canonical, JSON-able copy of everything reachable from o (tags and instance ids INCLUDED: a retained state must
    read literally the same later); mutable containers met on the way are recorded in `mutable`"""
    import dataclasses
    import enum

    if depth > 40:
        return "<deep>"
    if o is None or isinstance(o, (bool, int, str)):
        return o
    if isinstance(o, float):
        return repr(o)
    if isinstance(o, enum.Enum):
        return f"{type(o).__name__}.{o.name}"
    try:
        import immutables

        if isinstance(o, immutables.Map):
            return {"<Map>": [[deep_walk(k, mutable, path, depth + 1), deep_walk(v, mutable, f"{path}[{k}]", depth + 1)]
                              for k, v in sorted(o.items(), key=lambda kv: str(kv[0]))]}
    except ImportError:
        pass
    if isinstance(o, (frozenset,)):
        return {"<frozenset>": sorted(json.dumps(deep_walk(x, mutable, path, depth + 1), sort_keys=True) for x in o)}
    if isinstance(o, tuple):
        if hasattr(o, "_fields"):
            return {"<" + type(o).__name__ + ">": [[f, deep_walk(getattr(o, f), mutable, f"{path}.{f}", depth + 1)] for f in o._fields]}
        return [deep_walk(x, mutable, f"{path}[{i}]", depth + 1) for i, x in enumerate(o)]
    if dataclasses.is_dataclass(o) and not isinstance(o, type):
        names = {f.name for f in dataclasses.fields(o)}
        # a frozen dataclass can still carry attributes smuggled into its __dict__ (vars(o)[...] = ...): part of the reading
        extra = sorted((k, v) for k, v in getattr(o, "__dict__", {}).items() if k not in names)
        return {"<" + type(o).__name__ + ">": [[f.name, deep_walk(getattr(o, f.name), mutable, f"{path}.{f.name}", depth + 1)]
                                              for f in dataclasses.fields(o)]
                + [["<extra>" + k, deep_walk(v, mutable, f"{path}.{k}", depth + 1)] for k, v in extra]}
    if isinstance(o, (list, set, dict, bytearray)):
        mutable.append(f"{path}:{type(o).__name__}")
        if isinstance(o, dict):
            return {"<dict>": [[str(k), deep_walk(v, mutable, f"{path}[{k}]", depth + 1)] for k, v in sorted(o.items(), key=lambda kv: str(kv[0]))]}
        return {"<" + type(o).__name__ + ">": [deep_walk(x, mutable, path, depth + 1) for x in (sorted(o, key=str) if isinstance(o, set) else o)]}
    if type(o).__module__.startswith("numpy"):
        mutable.append(f"{path}:ndarray")
        return {"<ndarray>": o.tolist() if hasattr(o, "tolist") else str(o)}
    if hasattr(o, "hex") and type(o).__name__ == "UUID":
        return str(o)
    if hasattr(o, "__dict__") and type(o).__module__.startswith("nrel.hive") and not type(o).__name__.endswith("RoadNetwork"):
        return {"<" + type(o).__name__ + ">": [[k, deep_walk(v, mutable, f"{path}.{k}", depth + 1)] for k, v in sorted(vars(o).items())]}
    return f"<{type(o).__name__}>"


def state_fp(sim) -> Tuple[List[List[str]], List[str]]:
    """[[entity id, canonical text]...] of a SimulationState (everything except the road network object)"""
    mutable: List[str] = []
    out: List[List[str]] = []

    def put(key: str, val: Any, path: str) -> None:
        out.append([key, json.dumps(deep_walk(val, mutable, path), sort_keys=True, separators=(",", ":"))])

    for name in sim._fields:
        if name == "road_network":
            # the network object itself is not walked (a graph); what it ANSWERS for a fixed question is part of the reading:
            # the route between the positions of the first two vehicles (links, lengths, speeds)
            try:
                vs = [sim.vehicles[k] for k in sorted(sim.vehicles.keys())[:2]]
                if len(vs) == 2:
                    rt = sim.road_network.route(vs[0].position, vs[1].position)
                    out.append(["road_network:<probe>", json.dumps([[str(l.link_id), round(float(l.distance_km), 9), round(float(l.speed_kmph), 9)] for l in rt])])
            except Exception:
                pass
            continue
        val = getattr(sim, name)
        if name in ("vehicles", "stations", "bases", "requests"):
            for k in sorted(val.keys()):
                put(f"{name}:{k}", val[k], f"{name}[{k}]")
            put(f"{name}:<keys>", tuple(sorted(val.keys())), name)
        else:
            put(name, val, name)
    return out, sorted(set(mutable))


def sibling_payloads(rp, rng, prefer: Optional[set] = None) -> List[Any]:
    """what-if variants of a retained payload AT THE SAME MOMENT, made through the public entity API (a co-simulation
    user exploring alternatives): a station handed to an operator nobody belongs to, a plug throttled, a vehicle's charge
    level corrected.  Stepping them must not influence what stepping the retained payload gives."""
    import immutables
    from returns.result import Failure

    from nrel.hive.state.simulation_state import simulation_state_ops

    sim = rp.s
    out = []
    stations = [sim.stations[k] for k in sorted(sim.stations.keys())]
    rng.shuffle(stations)
    # first the stations the controllers are about to send vehicles to
    stations.sort(key=lambda st: 0 if prefer and st.id in prefer else 1)
    for st in stations[:2]:
        try:
            out.append(rp._replace(s=simulation_state_ops.modify_entity(sim, st.set_membership(("nobody",)))))
        except Exception:
            pass
    for st in stations[:1]:
        cid = sorted(st.state.keys())[0]
        res = st.set_charger_rate(cid, rp.e.chargers[cid].rate * 0.25)
        if not isinstance(res, Failure):
            try:
                out.append(rp._replace(s=simulation_state_ops.modify_entity(sim, res.unwrap())))
            except Exception:
                pass
    vehicles = [v for v in sim.get_vehicles() if type(v.vehicle_state).__name__ in ("ChargingStation", "ChargeQueueing", "Idle", "ChargingBase")]
    rng.shuffle(vehicles)
    changed = []
    for v in vehicles[:3]:
        mech = rp.e.mechatronics.get(v.mechatronics_id)
        cap = getattr(mech, "battery_capacity_kwh", None) or getattr(mech, "tank_capacity_gallons", None)
        if cap:
            et = list(v.energy.keys())[0]
            changed.append(v.modify_energy(immutables.Map({et: cap * rng.choice([0.15, 0.5])})))
    if changed:
        try:
            # second in line: a variant in which ONLY vehicles differ (every station object is the very same)
            out.insert(1, rp._replace(s=simulation_state_ops.modify_entities(sim, tuple(changed))))
        except Exception:
            pass
    return out


def observe_saved(job: Dict[str, Any], work: Path) -> Dict[str, Any]:
    """C16: retain states during a run, re-read them later; step / instruct the same retained state twice"""
    import random

    from nrel.hive.app import hive_cosim
    from nrel.hive.state.simulation_state.update.step_simulation_ops import apply_instructions
    from nrel.hive.util import verif_hooks

    rp = load_job_payload(job, work)
    rng = random.Random(job["seed"] if "seed" in job else 7)
    every, later = job.get("every", 5), job.get("later", 8)
    saved: List[Dict[str, Any]] = []
    lines: List[Dict[str, Any]] = []
    mutable_seen: set = set()
    reports: List[str] = []

    def sink(event, **f):
        if event == "report":
            reports.append(canon_report(f["report"]))

    def take_reports() -> List[str]:
        r = sorted(reports)
        reports.clear()
        return r

    verif_hooks.install(sink)
    try:
        for k in range(job["steps"]):
            if k % every == 0:
                fp, mut = state_fp(rp.s)
                mutable_seen.update(mut)
                saved.append({"k": k, "rp": rp, "fp": fp, "first": None})
                # the same retained state stepped twice with the same (deterministic) controller
                take_reports()
                s1, _ = rp.u.step_update.update(rp.s, rp.e)
                r1 = take_reports()
                s2, _ = rp.u.step_update.update(rp.s, rp.e)
                r2 = take_reports()
                saved[-1]["first"] = {"state": [[a, b] for a, b in sorted(full_state(s1, rp.e).items())], "reports": r1}
                lines.append({"k": "twice", "prop": "C16", "clause": "same_result_twice", "scen": job["id"], "i": k, "labels": ["first", "second"],
                              "vals": [{"state": [[a, b] for a, b in sorted(full_state(s1, rp.e).items())], "reports": r1},
                                       {"state": [[a, b] for a, b in sorted(full_state(s2, rp.e).items())], "reports": r2}]})
                # ... and once more after what-if variants of it (same moment, other entities) have been stepped
                sibs = []
                targets = set()
                for g in rp.u.step_update.ordered_instruction_generators:
                    targets.update(getattr(i, "station_id", None) for i in g.generate_instructions(rp.s, rp.e)[1])
                take_reports()
                for sib in sibling_payloads(rp, rng, targets - {None}):
                    try:
                        take_reports()
                        fp_s, _ = state_fp(sib.s)
                        s_sib, _ = sib.u.step_update.update(sib.s, sib.e)
                        # the variant is a retained state of its own: it is re-read and stepped again at the end of the run,
                        # when whatever the process remembered about this moment is long gone
                        sibs.append({"k": k, "rp": sib, "fp": fp_s, "variant": True,
                                     "first": {"state": [[a, b] for a, b in sorted(full_state(s_sib, sib.e).items())], "reports": take_reports()}})
                    except Exception:
                        pass          # a variant the simulator refuses to step is of no interest here
                take_reports()
                s3, _ = rp.u.step_update.update(rp.s, rp.e)
                r3 = take_reports()
                lines.append({"k": "after_siblings", "prop": "C16", "clause": "same_result_twice", "scen": job["id"], "i": k,
                              "labels": ["first", "after_what_if_variants"],
                              "vals": [saved[-1]["first"], {"state": [[a, b] for a, b in sorted(full_state(s3, rp.e).items())], "reports": r3}]})
                for n_, sb_ in enumerate(sibs[:3]):
                    sb_["slot"] = n_ + 1
                    saved.append(sb_)
                # the same instructions applied twice to the same retained state
                gens = rp.u.step_update.ordered_instruction_generators
                instrs: List[Any] = []
                for g in gens:
                    instrs.extend(g.generate_instructions(rp.s, rp.e)[1])
                seen_v, uniq = set(), []
                for i in instrs:
                    if i.vehicle_id not in seen_v:
                        seen_v.add(i.vehicle_id)
                        uniq.append(i)
                a1 = apply_instructions(rp.s, rp.e, tuple(uniq))
                a2 = apply_instructions(rp.s, rp.e, tuple(uniq))
                take_reports()
                lines.append({"k": "instruct_twice", "prop": "C16", "clause": "same_result_twice", "scen": job["id"], "i": k,
                              "labels": ["first", "second"],
                              "vals": [{"state": [[a, b] for a, b in sorted(full_state(a1, rp.e).items())], "reports": []},
                                       {"state": [[a, b] for a, b in sorted(full_state(a2, rp.e).items())], "reports": []}]})
                # ... and none of that may have touched the retained state
                fp_now, _ = state_fp(rp.s)
                lines.append({"k": "reread_after_branching", "prop": "C16", "clause": "saved_state_unchanged", "scen": job["id"], "i": k,
                              "labels": ["when_saved", "after_stepping_it"], "vals": [{"state": fp, "reports": []}, {"state": fp_now, "reports": []}]})
            rp = hive_cosim.crank(rp, 1).runner_payload
            take_reports()
            if k % 3 == 2:
                # a co-simulation user refreshes the road network for some hour of the day through the public op (the shipped
                # networks do not implement update(): then nothing happens); what the retained states answer must not change
                try:
                    from nrel.hive.model.sim_time import SimTime
                    from nrel.hive.state.simulation_state import simulation_state_ops as _ops

                    now = int(rp.s.sim_time)
                    hour = rng.choice([2, 7, 8, 12, 17, 22])
                    s_new = _ops.update_road_network(rp.s, SimTime.build((now // 86400) * 86400 + hour * 3600 + now % 3600))
                    if s_new is not None and type(s_new).__name__ == "SimulationState":
                        rp = rp._replace(s=s_new)
                except Exception:
                    pass
            for sv in saved:
                if k + 1 - sv["k"] in (1, later):
                    fp_now, _ = state_fp(sv["rp"].s)
                    lines.append({"k": "reread", "prop": "C16", "clause": "saved_state_unchanged", "scen": job["id"], "i": sv["k"],
                                  "labels": ["when_saved", f"after_{k + 1 - sv['k']}_steps"],
                                  "vals": [{"state": sv["fp"], "reports": []}, {"state": fp_now, "reports": []}]})
        # consecutive re-steps are of DIFFERENT moments (all originals, then all first variants, ...): whatever the process
        # may remember "about the current time step" comes from an unrelated moment
        for sv in sorted(saved, key=lambda x: (x.get("slot", 0), x["k"])):
            fp_now, _ = state_fp(sv["rp"].s)
            lines.append({"k": "reread_at_end", "prop": "C16", "clause": "saved_state_unchanged", "scen": job["id"], "i": sv["k"],
                          "labels": ["when_saved", "at_end"], "vals": [{"state": sv["fp"], "reports": []}, {"state": fp_now, "reports": []}]})
            # ... and stepping the retained state once more, after everything that happened since, gives what it gave then
            take_reports()
            s_again, _ = sv["rp"].u.step_update.update(sv["rp"].s, sv["rp"].e)
            r_again = take_reports()
            lines.append({"k": "again_at_end", "prop": "C16", "clause": "same_result_twice", "scen": job["id"], "i": sv["k"],
                          "labels": ["when_saved", "at_end"],
                          "vals": [sv["first"], {"state": [[a, b] for a, b in sorted(full_state(s_again, sv["rp"].e).items())], "reports": r_again}]})
    finally:
        verif_hooks.install(None)
    return {"id": job["id"], "label": job["label"], "lines": lines, "mutable": sorted(mutable_seen), "saved": len(saved)}
