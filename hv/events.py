"""C19: the written event.log parsed back and set against the state changes recorded through the hooks."""
from __future__ import annotations

import json
import random
import re
from pathlib import Path
from typing import Any, Dict, List, Tuple

from hv import adv, runs, tracer, world

REQUIRED = {
    "vehicle_move_event": ["vehicle_id", "distance_km"],
    "vehicle_charge_event": ["vehicle_id", "station_id", "energy"],
    "station_load_event": ["station_id", "energy"],
    "pickup_request_event": ["request_id", "vehicle_id", "wait_time_seconds"],
    "dropoff_request_event": ["request_id", "vehicle_id"],
    "cancel_request_event": ["request_id"],
    "add_request_event": ["request_id"],
}


def parse_duration(text: str) -> int:
    """str(timedelta): '0:05:00', '1 day, 0:00:30', '-1 day, 23:59:30'"""
    m = re.match(r"^(?:(-?\d+) days?, )?(\d+):(\d\d):(\d\d)(?:\.\d+)?$", text.strip())
    if not m:
        raise ValueError(text)
    d = int(m.group(1) or 0)
    return d * 86400 + int(m.group(2)) * 3600 + int(m.group(3)) * 60 + int(m.group(4))


def parse_log(path: Path) -> List[Dict[str, Any]]:
    """blocks of the log, one per flush: a block starts with the station load events of the step"""
    blocks: List[Dict[str, Any]] = []
    cur = None
    prev_type = None

    def fresh():
        return {"loads": [], "charges": [], "moves": [], "pickups": [], "dropoffs": [], "cancels": [], "adds": [], "bad": 0}

    for raw in Path(path).read_text().splitlines():
        if not raw.strip():
            continue
        try:
            ev = json.loads(raw)
            t = ev["report_type"]
            for f in REQUIRED.get(t, []):
                if f not in ev:
                    raise KeyError(f)
        except Exception:
            if cur is None:
                cur = fresh()
            cur["bad"] += 1
            continue
        # a flush writes one load event per station first: a new block starts with the first load event after other events,
        # or with a load event for a station the current block already has (a step without any other event)
        if cur is None or (t == "station_load_event" and (prev_type != "station_load_event"
                                                            or ev["station_id"] in {x[0] for x in cur["loads"]})):
            if cur is not None:
                blocks.append(cur)
            cur = fresh()
        prev_type = t
        try:
            if t == "station_load_event":
                cur["loads"].append([ev["station_id"], tracer.q(float(ev["energy"]), tracer.E_SCALE)])
            elif t == "vehicle_charge_event":
                cur["charges"].append([ev["vehicle_id"], ev["station_id"], tracer.q(float(ev["energy"]), tracer.E_SCALE)])
            elif t == "vehicle_move_event":
                cur["moves"].append([ev["vehicle_id"], tracer.q(float(ev["distance_km"]), tracer.D_SCALE)])
            elif t == "pickup_request_event":
                cur["pickups"].append([ev["request_id"], ev["vehicle_id"], parse_duration(ev["wait_time_seconds"])])
            elif t == "dropoff_request_event":
                cur["dropoffs"].append([ev["request_id"], ev["vehicle_id"]])
            elif t == "cancel_request_event":
                cur["cancels"].append(ev["request_id"])
            elif t == "add_request_event":
                cur["adds"].append(ev["request_id"])
        except Exception:
            cur["bad"] += 1
    if cur is not None:
        blocks.append(cur)
    return blocks


def state_steps(lines: List[Dict[str, Any]]) -> Tuple[List[Dict[str, Any]], Dict[str, Any]]:
    """per step, what happened in the state (from the recorded deltas)"""
    veh: Dict[str, Dict[str, Any]] = {}
    bases: Dict[str, Dict[str, Any]] = {}
    steps: List[Dict[str, Any]] = []
    cur = None
    picked_all: List[str] = []
    stranded: List[str] = []
    for e in lines:
        ev = e["ev"]
        if ev == "begin":
            cur = {"picked": [], "dropped": [], "cancelled": [], "added": [], "charged": [], "moved": []}
        d = e.get("d") or {}
        before = dict(veh)
        for i, r in d.get("bs", []):
            bases[i] = r
        if ev == "update" and cur is not None:
            v = e["v"]
            b = before.get(v)
            a = dict(d.get("veh", [])).get(v, b)
            if b is not None and a is not None:
                num = e.get("num", {})
                if num.get("gain_pos"):
                    st = a["tgt"] if a["act"] == "ChargingStation" else (bases.get(a["tgt"], {}).get("st", "") if a["act"] == "ChargingBase" else "")
                    cur["charged"].append([v, st, a["gained"] - b["gained"]])
                if num.get("moved") and a["act"] != "OutOfService":
                    cur["moved"].append([v, a["odo"] - b["odo"]])
                if b["act"] == "DispatchTrip" and b["tgt"] in d.get("rmreq", []):
                    cur["picked"].append([b["tgt"], v])
                    picked_all.append(b["tgt"])
                    if a["act"] == "OutOfService":
                        stranded.append(b["tgt"])        # picked up and stranded in the same update
                if b["act"] == "ServicingTrip" and b.get("ob") and a["act"] == "OutOfService":
                    stranded.append(b["ob"])             # the vehicle ran dry with the passengers on board
                if a["act"] == "ServicingTrip" and a["rn"] == 0 and (b["act"] != "ServicingTrip" or b["rn"] > 0):
                    cur["dropped"].append([a["ob"], v])
        elif ev == "pre" and cur is not None:
            if e["fn"] == "CancelRequests":
                cur["cancelled"] += list(d.get("rmreq", []))
            elif e["fn"] == "UpdateRequestsFromFile":
                cur["added"] += [i for i, _ in d.get("req", [])]
        for i, r in d.get("veh", []):
            veh[i] = r
        for i in d.get("rmveh", []):
            veh.pop(i, None)
        if ev == "end" and cur is not None:
            steps.append(cur)
            cur = None
    final = {"odo": [[i, r["odo"]] for i, r in sorted(veh.items())], "gained": [[i, r["gained"]] for i, r in sorted(veh.items())],
             # what became of every request that was picked up (per the state): still on board at the end, or stranded
             "picked_all": sorted(set(picked_all)), "stranded": sorted(set(stranded)),
             "onboard": sorted({r["ob"] for r in veh.values() if r.get("ob")})}
    return steps, final


def run_events(item: Dict[str, Any], work: Path, out_path: Path) -> Dict[str, Any]:
    """one run through the real file-writing handlers; writes the HiveEvents log"""
    from nrel.hive.app import hive_cosim

    seed = item["seed"]
    rng = random.Random(seed)
    if item.get("scenario"):
        rp = world.load(Path(item["scenario"]), work / "out", write_outputs=True, suffix=item["id"])
        gens = None
    else:
        w = adv.gen_world(rng, n_steps=item["steps"], **(item.get("world_kwargs") or {}))
        scen = world.write_world(work / f"world_{item['id']}", w)
        rp = world.load(scen, work / "out", write_outputs=True, suffix=item["id"])
        if w.get("preload"):
            rp = runs.preload_requests(rp, w["preload"])
        gens = []
        for k, part in enumerate((item.get("mix") or "builtin").split("+")):
            if part == "adv":
                gens.append(adv.Adversary(seed * 7 + k, label=f"Adversary{k}", p_instr=item.get("p_instr", 0.3), kinds=item.get("kinds")))
            else:
                from nrel.hive.dispatcher.instruction_generator.charging_fleet_manager import ChargingFleetManager
                from nrel.hive.dispatcher.instruction_generator.dispatcher import Dispatcher

                gens += [Dispatcher(rp.e.config.dispatcher), ChargingFleetManager(rp.e.config.dispatcher)]
        rp = runs.set_generators(rp, gens)
    tr = tracer.Tracer(None, with_route=False, keep=True, run_id=item["id"])
    rp = runs.crank_traced(rp, item["steps"], tr, {"builtin": False, "scenario": item["id"]})
    summary = rp.e.reporter.get_summary_stats(rp) or {}
    from nrel.hive.reporting.handler.stats_handler import StatsHandler

    counts = {"requests": -1, "cancelled": -1}
    for h in rp.e.reporter.handlers:
        if isinstance(h, StatsHandler):
            counts = {"requests": int(h.stats.requests), "cancelled": int(h.stats.cancelled_requests)}
    hive_cosim.close(rp)
    out_dir = Path(rp.e.config.scenario_output_directory)
    blocks = parse_log(out_dir / "event.log")
    steps, final = state_steps(tr.lines)
    cancel = int(rp.e.config.sim.request_cancel_time_seconds)
    dt = int(rp.e.config.sim.timestep_duration_seconds)
    empty = {"loads": [], "charges": [], "moves": [], "pickups": [], "dropoffs": [], "cancels": [], "adds": [], "bad": 0}
    n = max(len(blocks), len(steps))
    with out_path.open("a") as f:
        f.write(json.dumps({"k": "start", "id": item["id"]}) + "\n")
        for i in range(n):
            log = blocks[i] if i < len(blocks) else dict(empty)
            st = steps[i] if i < len(steps) else {"picked": [], "dropped": [], "cancelled": [], "added": [], "charged": [], "moved": []}
            if len(blocks) != len(steps) and i == n - 1:
                log = dict(log, bad=log["bad"] + abs(len(blocks) - len(steps)))     # the log has another number of steps than the run
            f.write(json.dumps({"k": "step", "id": item["id"], "i": i, "cancel": cancel, "dt": dt, "log": log, "state": st}, separators=(",", ":")) + "\n")
        f.write(json.dumps({"k": "final", "id": item["id"], **final,
                            "summary": {"requests": counts["requests"], "cancelled": counts["cancelled"],
                                        "vkt": tracer.q(float(summary.get("total_vkt", 0.0)), tracer.D_SCALE)}},
                           separators=(",", ":")) + "\n")
    import shutil

    shutil.rmtree(out_dir, ignore_errors=True)
    return {"steps": len(steps), "log_blocks": len(blocks), "events": sum(len(b["moves"]) + len(b["charges"]) + len(b["pickups"]) for b in blocks)}
