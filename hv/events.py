"""C19: the written event.log parsed back and set against the state changes recorded through the hooks."""
from __future__ import annotations

import json
import random
import re
from pathlib import Path
from typing import Any, Dict, List, Tuple

from hv import adv, runs, tracer, world

REQUIRED = {
    "vehicle_move_event": ["vehicle_id", "distance_km"],
    "vehicle_charge_event": ["vehicle_id", "station_id", "energy"],
    "station_load_event": ["station_id", "energy"],
    "pickup_request_event": ["request_id", "vehicle_id", "wait_time_seconds"],
    "dropoff_request_event": ["request_id", "vehicle_id"],
    "cancel_request_event": ["request_id"],
    "add_request_event": ["request_id"],
}


def parse_duration(text: str) -> int:
    """str(timedelta): '0:05:00', '1 day, 0:00:30', '-1 day, 23:59:30'"""
    m = re.match(r"^(?:(-?\d+) days?, )?(\d+):(\d\d):(\d\d)(?:\.\d+)?$", text.strip())
    if not m:
        raise ValueError(text)
    d = int(m.group(1) or 0)
    return d * 86400 + int(m.group(2)) * 3600 + int(m.group(3)) * 60 + int(m.group(4))


def parse_log(path: Path) -> List[Dict[str, Any]]:
    """blocks of the log, one per flush: a block starts with the station load events of the step"""
    blocks: List[Dict[str, Any]] = []
    cur = None
    prev_type = None

    def fresh():
        return {"loads": [], "charges": [], "moves": [], "pickups": [], "dropoffs": [], "cancels": [], "adds": [], "bad": 0}

    for raw in Path(path).read_text().splitlines():
        if not raw.strip():
            continue
        try:
            ev = json.loads(raw)
            t = ev["report_type"]
            for f in REQUIRED.get(t, []):
                if f not in ev:
                    raise KeyError(f)
        except Exception:
            if cur is None:
                cur = fresh()
            cur["bad"] += 1
            continue
        # a flush writes one load event per station first: a new block starts with the first load event after other events,
        # or with a load event for a station the current block already has (a step without any other event)
        if cur is None or (t == "station_load_event" and (prev_type != "station_load_event"
                                                            or ev["station_id"] in {x[0] for x in cur["loads"]})):
            if cur is not None:
                blocks.append(cur)
            cur = fresh()
        prev_type = t
        try:
            if t == "station_load_event":
                cur["loads"].append([ev["station_id"], tracer.q(float(ev["energy"]), tracer.E_SCALE)])
            elif t == "vehicle_charge_event":
                cur["charges"].append([ev["vehicle_id"], ev["station_id"], tracer.q(float(ev["energy"]), tracer.E_SCALE)])
            elif t == "vehicle_move_event":
                cur["moves"].append([ev["vehicle_id"], tracer.q(float(ev["distance_km"]), tracer.D_SCALE)])
            elif t == "pickup_request_event":
                cur["pickups"].append([ev["request_id"], ev["vehicle_id"], parse_duration(ev["wait_time_seconds"])])
            elif t == "dropoff_request_event":
                cur["dropoffs"].append([ev["request_id"], ev["vehicle_id"]])
            elif t == "cancel_request_event":
                cur["cancels"].append(ev["request_id"])
            elif t == "add_request_event":
                cur["adds"].append(ev["request_id"])
        except Exception:
            cur["bad"] += 1
    if cur is not None:
        blocks.append(cur)
    return blocks


def state_steps(lines: List[Dict[str, Any]]) -> Tuple[List[Dict[str, Any]], Dict[str, Any]]:
    """per step, what happened in the state (from the recorded deltas)"""
    veh: Dict[str, Dict[str, Any]] = {}
    bases: Dict[str, Dict[str, Any]] = {}
    steps: List[Dict[str, Any]] = []
    cur = None
    picked_all: List[str] = []
    stranded: List[str] = []
    for e in lines:
        ev = e["ev"]
        if ev == "begin":
            cur = {"picked": [], "dropped": [], "cancelled": [], "added": [], "charged": [], "moved": []}
        d = e.get("d") or {}
        before = dict(veh)
        for i, r in d.get("bs", []):
            bases[i] = r
        if ev == "update" and cur is not None:
            v = e["v"]
            b = before.get(v)
            a = dict(d.get("veh", [])).get(v, b)
            if b is not None and a is not None:
                num = e.get("num", {})
                if num.get("gain_pos"):
                    st = a["tgt"] if a["act"] == "ChargingStation" else (bases.get(a["tgt"], {}).get("st", "") if a["act"] == "ChargingBase" else "")
                    cur["charged"].append([v, st, a["gained"] - b["gained"]])
                if num.get("moved") and a["act"] != "OutOfService":
                    cur["moved"].append([v, a["odo"] - b["odo"]])
                if b["act"] == "DispatchTrip" and b["tgt"] in d.get("rmreq", []):
                    cur["picked"].append([b["tgt"], v])
                    picked_all.append(b["tgt"])
                    if a["act"] == "OutOfService":
                        stranded.append(b["tgt"])        # picked up and stranded in the same update
                if b["act"] == "ServicingTrip" and b.get("ob") and a["act"] == "OutOfService":
                    stranded.append(b["ob"])             # the vehicle ran dry with the passengers on board
                if a["act"] == "ServicingTrip" and a["rn"] == 0 and (b["act"] != "ServicingTrip" or b["rn"] > 0):
                    cur["dropped"].append([a["ob"], v])
        elif ev == "pre" and cur is not None:
            if e["fn"] == "CancelRequests":
                cur["cancelled"] += list(d.get("rmreq", []))
            elif e["fn"] == "UpdateRequestsFromFile":
                cur["added"] += [i for i, _ in d.get("req", [])]
        for i, r in d.get("veh", []):
            veh[i] = r
        for i in d.get("rmveh", []):
            veh.pop(i, None)
        if ev == "end" and cur is not None:
            steps.append(cur)
            cur = None
    final = {"odo": [[i, r["odo"]] for i, r in sorted(veh.items())], "gained": [[i, r["gained"]] for i, r in sorted(veh.items())],
             # what became of every request that was picked up (per the state): still on board at the end, or stranded
             "picked_all": sorted(set(picked_all)), "stranded": sorted(set(stranded)),
             "onboard": sorted({r["ob"] for r in veh.values() if r.get("ob")})}
    return steps, final


# ---- time-step statistics (spec/HiveStats.tla; beyond the listed properties: conformance divergences only) ----------

def guard_stats_handler(rp) -> Tuple[Any, List[str]]:
    """the time-step statistics handler of the run, its handle() wrapped so that an exception inside it is recorded instead
    of ending the run (the run is a C19 run first)"""
    from nrel.hive.reporting.handler.time_step_stats_handler import TimeStepStatsHandler

    errors: List[str] = []
    for h in rp.e.reporter.handlers:
        if isinstance(h, TimeStepStatsHandler):
            inner = h.handle

            def handle(reports, runner_payload, _inner=inner):
                try:
                    _inner(reports, runner_payload)
                except Exception as ex:       # noqa: BLE001 - whatever it is, it is reported as a divergence
                    errors.append(f"{type(ex).__name__}: {ex}"[:160])

            h.handle = handle
            inner_close = h.close

            def close(runner_payload, _inner=inner_close):
                try:
                    _inner(runner_payload)
                except Exception as ex:       # noqa: BLE001 - the other handlers still have to write their files
                    errors.append(f"close: {type(ex).__name__}: {ex}"[:160])

            h.close = close
            return h, errors
    return None, errors


def _fleets_of_report(r: Dict[str, Any]) -> List[str]:
    import ast

    txt = r.get("vehicle_memberships")
    try:
        val = ast.literal_eval(txt) if isinstance(txt, str) else txt
    except Exception:
        val = None
    return sorted(str(x) for x in val) if isinstance(val, (list, tuple, set, frozenset)) else []


def stats_inputs(lines: List[Dict[str, Any]]) -> List[Dict[str, Any]]:
    """per step: the state at the END of the step and the reports filed during it (from the hook-recorded lines)"""
    veh: Dict[str, Dict[str, Any]] = {}
    req: Dict[str, Dict[str, Any]] = {}
    caps: Dict[str, int] = {}
    fleets: List[str] = []
    reps: List[Dict[str, Any]] = []
    out = []
    for e in lines:
        if e["ev"] == "init":
            caps = {i: c for i, c in e.get("caps", [])}
            fleets = list(e.get("fleetids", []))
        d = e.get("d") or {}
        for i, r in d.get("veh", []):
            veh[i] = r
        for i in d.get("rmveh", []):
            veh.pop(i, None)
        for i, r in d.get("req", []):
            req[i] = r
        for i in d.get("rmreq", []):
            req.pop(i, None)
        reps.extend(e.get("rep") or [])
        if e["ev"] == "end":
            vs = []
            for i in sorted(veh):
                r = veh[i]
                cap = caps.get(i) or 0
                vs.append({"id": i, "act": r["act"], "avail": bool(r.get("avail", True)), "fleets": sorted(r.get("fleets", [])),
                           "soc": int(round(r["en"] * 10000 / cap)) if cap else 0,
                           "pooled": len(r.get("obdest", [])) if r["act"] == "ServicingPoolingTrip" else 0,
                           "planned": len(r.get("obdest", [])) if r["act"] == "DispatchPoolingTrip" else 0})
            out.append({
                "veh": vs, "req": [{"id": i, "assigned": bool(req[i].get("disp"))} for i in sorted(req)], "fleets": fleets,
                "moves": [{"fleets": _fleets_of_report(r), "m": tracer.q(float(r.get("distance_km", 0.0)), tracer.D_SCALE),
                           "state": str(r.get("vehicle_state"))}
                          for r in reps if r["type"] == "vehicle_move_event"],
                "charges": [{"fleets": _fleets_of_report(r), "charger": str(r.get("charger_id"))} for r in reps if r["type"] == "vehicle_charge_event"],
                "cancels": [str(r.get("request_id")) for r in reps if r["type"] == "cancel_request_event"]})
            reps = []
    return out


def _stats_row(raw: Dict[str, Any], chargers: List[str]) -> Dict[str, Any]:
    """a row of the statistics (as parsed back from the csv file, or as the handler holds it) in the integers of the spec"""
    def num(x):
        try:
            return float(x)
        except Exception:
            return None

    row: Dict[str, Any] = {}
    for k, v in raw.items():
        if k in ("sim_time",):
            continue
        f = num(v)
        if k == "avg_soc_percent":
            row["soc"] = -1 if f is None else int(round(f * 100))
        elif k == "vkt":
            row["vkt"] = -1 if f is None else tracer.q(f, tracer.D_SCALE)
        elif k.startswith("charger_"):
            continue
        else:
            row[k] = -1 if f is None else int(f)
    row["chargers"] = {c: (int(num(raw.get(f"charger_{c.lower()}"))) if num(raw.get(f"charger_{c.lower()}")) is not None else -1) for c in chargers}
    return row


def stats_lines(item_id: str, handler, errors: List[str], out_dir: Path, lines: List[Dict[str, Any]], chargers: List[str]) -> List[Dict[str, Any]]:
    """the "stats" lines of one run: the global rows parsed back from the WRITTEN file, the per-fleet rows as the handler
    holds them (and whether the written per-fleet files can be read back at all)"""
    import csv

    out: List[Dict[str, Any]] = []
    inputs = stats_inputs(lines)
    for msg in sorted(set(errors)):
        out.append({"k": "stats_abort", "id": item_id, "error": msg, "n": errors.count(msg)})
    path = out_dir / "time_step_stats_all.csv"
    rows = list(csv.DictReader(path.open())) if path.exists() else []
    if not path.exists() or len(rows) != len(inputs):
        out.append({"k": "stats_file", "id": item_id, "what": "time_step_stats_all.csv", "rows": len(rows), "steps": len(inputs)})
    for i, (raw, inp) in enumerate(zip(rows, inputs)):
        out.append({"k": "stats", "id": item_id, "i": i, "fleet": "", "chargers": chargers, "row": _stats_row(raw, chargers), **inp})
    if handler is not None and getattr(handler, "log_fleet_time_step_stats", False):
        for fleet_id, data in sorted(handler.get_fleet_time_step_stats().items(), key=lambda kv: str(kv[0])):
            by_step = {int(r["time_step"]): r for r in (data or [])}
            for i, inp in enumerate(inputs):
                if i + 1 in by_step:
                    out.append({"k": "stats", "id": item_id, "i": i, "fleet": str(fleet_id), "chargers": chargers,
                                "row": _stats_row(by_step[i + 1], chargers), **inp})
            # the written per-fleet file: can its rows be read back?
            fpath = out_dir / "fleet_time_step_stats" / f"time_step_stats_{fleet_id}.csv"
            if data:
                ok = False
                if fpath.exists():
                    back = list(csv.reader(fpath.open()))
                    ok = len(back) == len(data) + 1 and all(str(r.get("time_step")) == b[0] for r, b in zip(data, back[1:]))
                if not ok:
                    out.append({"k": "stats_file", "id": item_id, "what": "fleet_time_step_stats/time_step_stats_<fleet>.csv",
                                "rows": -1, "steps": len(data)})
    return out


def final_state(lines: List[Dict[str, Any]]) -> Dict[str, Any]:
    """the end state as the summary sees it (charge level 1e-4, money 1e-4, energy 1e-3)"""
    veh: Dict[str, Dict[str, Any]] = {}
    st: Dict[str, Dict[str, Any]] = {}
    caps: Dict[str, int] = {}
    for e in lines:
        if e["ev"] == "init":
            caps = {i: c for i, c in e.get("caps", [])}
        d = e.get("d") or {}
        for i, r in d.get("veh", []):
            veh[i] = r
        for i in d.get("rmveh", []):
            veh.pop(i, None)
        for i, r in d.get("st", []):
            st[i] = r
        for i in d.get("rmst", []):
            st.pop(i, None)
    return {"veh": [{"id": i, "soc": int(round(r["en"] * 10000 / caps[i])) if caps.get(i) else 0, "bal": r["bal"], "spent": r["spent"],
                     "kind": r["kind"]} for i, r in sorted(veh.items())],
            "st": [{"id": i, "bal": r["bal"], "disp_e": dict(r["disp"]).get("electric", 0), "disp_g": dict(r["disp"]).get("gasoline", 0)}
                   for i, r in sorted(st.items())]}


def summary_ints(summary: Dict[str, Any]) -> Dict[str, Any]:
    """the summary of the real StatsHandler in the integers of the spec"""
    f = lambda k: float(summary.get(k, 0.0) or 0.0)      # noqa: E731
    return {"nveh": int(summary.get("final_vehicle_count", -1)), "soc": int(round(f("mean_final_soc") * 10000)),
            "fleet_rev": tracer.q(f("fleet_revenue_dollars"), tracer.M_SCALE), "station_rev": tracer.q(f("station_revenue_dollars"), tracer.M_SCALE),
            "kwh_exp": tracer.q(f("total_kwh_expended"), tracer.E_SCALE), "gge_exp": tracer.q(f("total_gge_expended"), tracer.E_SCALE),
            "kwh_disp": tracer.q(f("total_kwh_dispensed"), tracer.E_SCALE), "gge_disp": tracer.q(f("total_gge_dispensed"), tracer.E_SCALE),
            "served": int(round(f("requests_served_percent") * 10000)),
            "vstate": [[str(k), int(round(float(v.get("observed_percent", 0.0)) * 10000)), tracer.q(float(v.get("vkt", 0.0)), tracer.D_SCALE)]
                       for k, v in sorted((summary.get("vehicle_state") or {}).items())]}


def run_events(item: Dict[str, Any], work: Path, out_path: Path) -> Dict[str, Any]:
    """one run through the real file-writing handlers; writes the HiveEvents log"""
    from nrel.hive.app import hive_cosim

    seed = item["seed"]
    rng = random.Random(seed)
    suffix = item.get("suffix", item["id"])
    again = bool(item.get("_again"))
    if item.get("scenario"):
        rp = world.load(Path(item["scenario"]), work / "out", write_outputs=True, suffix=suffix, time_step_stats=True, keep_existing=again)
        gens = None
    else:
        w = adv.gen_world(rng, n_steps=item["steps"], **(item.get("world_kwargs") or {}))
        if item.get("reuse_ids"):
            # a requests file whose numbering starts again (a file of several days numbered per day): an id comes back once the
            # first request that carried it has certainly left the waiting set (picked up or timed out)
            firsts: List[Dict[str, Any]] = []
            taken = {r["id"] for r in (w.get("preload") or [])}
            gap = int(w.get("cancel", 600)) + 3 * int(w["dt"])
            for r in sorted(w["requests"], key=lambda r: (r["dep"], r["id"])):
                cand = [x for x in firsts if x["id"] not in taken and r["dep"] >= x["dep"] + gap]
                if cand and rng.random() < 0.7:
                    r["id"] = cand[0]["id"]
                    taken.add(r["id"])
                else:
                    firsts.append(dict(r))
        scen = world.write_world(work / f"world_{item['id']}", w)
        rp = world.load(scen, work / "out", write_outputs=True, suffix=suffix, time_step_stats=True, keep_existing=again)
        if w.get("preload"):
            rp = runs.preload_requests(rp, w["preload"])
        gens = []
        for k, part in enumerate((item.get("mix") or "builtin").split("+")):
            if part == "adv":
                gens.append(adv.Adversary(seed * 7 + k, label=f"Adversary{k}", p_instr=item.get("p_instr", 0.3), kinds=item.get("kinds")))
            else:
                from nrel.hive.dispatcher.instruction_generator.charging_fleet_manager import ChargingFleetManager
                from nrel.hive.dispatcher.instruction_generator.dispatcher import Dispatcher

                gens += [Dispatcher(rp.e.config.dispatcher), ChargingFleetManager(rp.e.config.dispatcher)]
        rp = runs.set_generators(rp, gens)
    tr = tracer.Tracer(None, with_route=False, keep=True, run_id=item["id"])
    stats_handler, stats_errors = guard_stats_handler(rp)
    rp = runs.crank_traced(rp, item["steps"], tr, {"builtin": False, "scenario": item["id"]})
    summary = rp.e.reporter.get_summary_stats(rp) or {}
    from nrel.hive.reporting.handler.stats_handler import StatsHandler

    counts = {"requests": -1, "cancelled": -1}
    for h in rp.e.reporter.handlers:
        if isinstance(h, StatsHandler):
            counts = {"requests": int(h.stats.requests), "cancelled": int(h.stats.cancelled_requests)}
    hive_cosim.close(rp)
    out_dir = Path(rp.e.config.scenario_output_directory)
    blocks = parse_log(out_dir / "event.log")
    steps, final = state_steps(tr.lines)
    cancel = int(rp.e.config.sim.request_cancel_time_seconds)
    dt = int(rp.e.config.sim.timestep_duration_seconds)
    if not item.get("scenario"):
        cancel, dt = int(w.get("cancel", 600)), int(w["dt"])        # the scenario's input, not what the loaded configuration reports back
    else:
        inp = runs.scenario_inputs(Path(item["scenario"]))
        cancel, dt = inp.get("cancel", cancel), inp.get("dt_cfg", dt)
    empty = {"loads": [], "charges": [], "moves": [], "pickups": [], "dropoffs": [], "cancels": [], "adds": [], "bad": 0}
    n = max(len(blocks), len(steps))
    with out_path.open("a") as f:
        f.write(json.dumps({"k": "start", "id": item["id"]}) + "\n")
        for i in range(n):
            log = blocks[i] if i < len(blocks) else dict(empty)
            st = steps[i] if i < len(steps) else {"picked": [], "dropped": [], "cancelled": [], "added": [], "charged": [], "moved": []}
            if len(blocks) != len(steps) and i == n - 1:
                log = dict(log, bad=log["bad"] + abs(len(blocks) - len(steps)))     # the log has another number of steps than the run
            f.write(json.dumps({"k": "step", "id": item["id"], "i": i, "cancel": cancel, "dt": dt, "log": log, "state": st}, separators=(",", ":")) + "\n")
        for ln in stats_lines(item["id"], stats_handler, stats_errors, out_dir, tr.lines, sorted(rp.e.chargers.keys())):
            f.write(json.dumps(ln, separators=(",", ":")) + "\n")
        f.write(json.dumps({"k": "final", "id": item["id"], **final, "fin": final_state(tr.lines),
                            "summary": {"requests": counts["requests"], "cancelled": counts["cancelled"],
                                        "vkt": tracer.q(float(summary.get("total_vkt", 0.0)), tracer.D_SCALE),
                                        **summary_ints(summary)}},
                           separators=(",", ":")) + "\n")
    import shutil

    rerun = None
    if item.get("rerun") and not again:
        # the same scenario once more INTO THE SAME OUTPUT DIRECTORY (a user re-using an output suffix): hive refuses that
        # (the directory exists); were it accepted, the second run's log must still account for the second run alone
        try:
            rerun = run_events(dict(item, id=item["id"] + "_again", suffix=suffix, _again=True, rerun=False), work, out_path)
        except FileExistsError:
            rerun = "refused"
    shutil.rmtree(out_dir, ignore_errors=True)
    if rerun is not None:
        return {"steps": len(steps), "log_blocks": len(blocks), "rerun": rerun if isinstance(rerun, str) else "accepted",
                "events": sum(len(b["moves"]) + len(b["charges"]) + len(b["pickups"]) for b in blocks)}
    return {"steps": len(steps), "log_blocks": len(blocks), "events": sum(len(b["moves"]) + len(b["charges"]) + len(b["pickups"]) for b in blocks)}
