"""Spec -> code for C06: every (route, step length) of the bounded model HiveTraverse is executed in the REAL
routetraversal.traverse and the structure of the result (which links were driven entirely, which one was split, which
remain) is compared with the model's."""
from __future__ import annotations

import json
from typing import Any, Dict, List, Tuple

from hv import tlc
from hv.common import Ctx, MachineryError


def run(ctx: Ctx) -> None:
    import h3

    from hv import world

    max_len, max_tt, max_dt = ctx.pick((3, 3, 4), (4, 3, 4))
    cfg = ctx.work / "traverse.cfg"
    cfg.write_text(f"SPECIFICATION Spec\nCONSTANTS\n  MaxLen = {max_len}\n  MaxTT = {max_tt}\n  MaxDt = {max_dt}\n  Export = TRUE\n"
                   "INVARIANT TraverseOK\nINVARIANT Exported\nCHECK_DEADLOCK FALSE\n")
    res = tlc.run_tlc("HiveTraverse", str(cfg), ctx.work, name="HiveTraverse", workers=1, timeout=1500, heap="6g")
    tlc.require_ok(res, allow_violations=True)
    if res.violated:
        raise MachineryError(f"HiveTraverse violates {res.violated}: the transcription of traverse() or TraverseOK is wrong")
    ctx.add_model(res)
    cases = [json.loads(tlc.tla_str_to_py(x)) for x in tlc.printed(res, "TRAV")]
    ctx.log(f"HiveTraverse: {res.distinct} (route, step length) cases, TraverseOK holds; executing them in the real traverse()")

    from nrel.hive.model.roadnetwork.link import Link
    from nrel.hive.model.roadnetwork.linktraversal import LinkTraversal
    from nrel.hive.model.roadnetwork.roadnetwork import RoadNetwork
    from nrel.hive.model.roadnetwork.routetraversal import traverse

    cells = [h3.geo_to_h3(*world.at(300.0 * k, 0), 15) for k in range(8)]
    SPEED = 36.0  # km/h = 10 m/s

    class Net(RoadNetwork):
        """the ground-truth link table traverse() consults for current speeds"""

        def __init__(self, links):
            self.links = links
            self.sim_h3_resolution = 15

        def route(self, origin, destination):
            return ()

        def distance_by_geoid_km(self, origin, destination):
            return 0.0

        def link_from_link_id(self, link_id):
            return self.links.get(link_id)

        def link_from_geoid(self, geoid):
            return None

        def geoid_within_geofence(self, geoid):
            return True

        def update(self, sim_time):
            return self

    seen = set()
    n = 0
    for c in cases:
        key = json.dumps([c["r"], c["d"], c["closed"]], sort_keys=True)
        if key in seen:
            continue
        seen.add(key)
        route, links, pos = [], {}, 0
        last_real = max([i for i, lk in enumerate(c["r"]) if not lk["deg"]], default=-1)
        for i, lk in enumerate(c["r"]):
            lid = str(lk["id"])
            # whole-second travel time tt: distance (tt + 0.5) * 10 m at 10 m/s truncates to tt
            dist_km = (lk["tt"] + 0.5) * 10.0 / 1000.0
            if lk["deg"]:
                a = b = cells[pos]
            elif c["closed"] and i == last_real:
                a, b = cells[pos], cells[0]        # the loop closes: back to where the route started
                pos = 0
            else:
                a, b = cells[pos], cells[pos + 1]
                pos += 1
            route.append(LinkTraversal(lid, a, b, dist_km, SPEED))
            links[lid] = Link(lid, a, b, dist_km, SPEED)
        err, result = traverse(tuple(route), c["d"], Net(links))
        n += 1
        if err is not None or result is None:
            ctx.violation("traverse_agrees_with_model", "traverse_error", case=c, error=repr(err))
            continue
        orig = {lt.link_id: lt for lt in route}

        def part(lt, side):
            o = orig[lt.link_id]
            if lt.start == o.start and lt.end == o.end:
                return "whole"
            return side

        exp = [[int(lt.link_id), part(lt, "head")] for lt in result.experienced_route]
        rem = [[int(lt.link_id), part(lt, "tail")] for lt in result.remaining_route]
        # a route whose first start equals its last end is not traversed at all by the real function (it is "consumed"):
        # the model's `closed` flag, realised here by closing the loop on the first cell
        if c["closed"] != (route[0].start == route[-1].end):
            raise MachineryError(f"traverse replay built a route that does not match the model's `closed` flag: {c}")
        if exp != [list(x) for x in c["exp"]] or rem != [list(x) for x in c["rem"]]:
            ctx.violation("traverse_agrees_with_model", "structure", case=c, real={"exp": exp, "rem": rem})
    ctx.coverage["model_cases_executed_in_real_traverse"] = n
    ctx.sample({"traverse_case": cases[len(cases) // 2]})
