"""The worlds of the bounded model: ONE description per configuration, from which both the TLA+ constants module
(spec/MC_<name>.tla) and the concrete hive scenario used to execute model behaviours are derived."""
from __future__ import annotations

import os
import tempfile
from pathlib import Path
from typing import Any, Dict, List

from hv.common import SPEC

PLUG = {"dcfc": "DCFC", "l2": "LEVEL_2", "l1": "LEVEL_1", "gas": "GAS_PUMP", "nosuchplug": "NOPLUG"}
PLUG_KIND = {"dcfc": "electric", "l2": "electric", "l1": "electric", "gas": "gasoline"}
MECH = {"electric": "leaf_50", "gasoline": "toyota_corolla"}
# model energy units -> initial state of charge (MaxE = full)
SOC = {"electric": {0: 0.0, 1: 0.004, 2: 0.3}, "gasoline": {0: 0.0, 1: 0.002, 2: 0.5}}

WORLDS: Dict[str, Dict[str, Any]] = {
    "core_quick": dict(
        doc="2 vehicles contending for 1 plug / 1 stall / 1 request; full adversarial instruction set",
        geom={"c1": (0, 0), "c2": (700, 0), "c3": (0, 600)}, cells=["c1", "c2", "c3"],
        vehicles={"v1": dict(cell="c1", en=2), "v2": dict(cell="c1", en=2)},
        stations={"s1": dict(cell="c2", plugs={"dcfc": 1})},
        bases={"b1": dict(cell="c3", stalls=1, station="s1")},
        requests={"r1": dict(o="c1", d="c3")},
    ),
    "station": dict(
        doc="3 vehicles contending for ONE plug of one station (a second plug type has one plug too): queue order, "
            "plug accounting, arrivals at a full station, departures by instruction or full battery, abandonment; "
            "v3 starts at the station, a later arrival can have a smaller id",
        geom={"c1": (0, 0), "c2": (200, 0)}, cells=["c1"],
        vehicles={"v1": dict(cell="c1", en=1), "v2": dict(cell="c1", en=2), "v3": dict(cell="c2", en=1)},
        stations={"s1": dict(cell="c2", plugs={"l1": 1, "l2": 1})},
        bases={}, requests={},
    ),
    "base": dict(
        doc="3 vehicles, ONE stall at a base served by a station with ONE plug, plus a plain base with one stall: "
            "parking, base charging, failed enter after a successful exit, stall/plug accounting; one combustion vehicle",
        geom={"c1": (0, 0), "c3": (0, 600)}, cells=["c1"],
        vehicles={"v1": dict(cell="c1", en=1), "v2": dict(cell="c3", en=1), "v3": dict(cell="c3", en=1, kind="gasoline")},
        stations={"s1": dict(cell="c3", plugs={"l2": 1})},
        bases={"b1": dict(cell="c3", stalls=1, station="s1"), "b2": dict(cell="c1", stalls=1, station=None)},
        requests={},
    ),
    "queuebase": dict(
        doc="3 vehicles standing at ONE plug of a station that also serves a co-located base: a vehicle waiting in the "
            "station's queue can be told to charge through the base",
        geom={"c1": (0, 0), "c2": (200, 0)}, cells=["c1"],
        vehicles={"v1": dict(cell="c2", en=1), "v2": dict(cell="c2", en=1), "v3": dict(cell="c2", en=1)},
        stations={"s1": dict(cell="c2", plugs={"l2": 1})},
        bases={"b1": dict(cell="c2", stalls=2, station="s1")}, requests={},
    ),
    "twin": dict(
        doc="3 vehicles, TWO one-plug stations of the same plug type a short drive apart: a vehicle waiting in one queue is "
            "sent to the other station and joins that queue as a newcomer (its rank there is the time it joins)",
        geom={"c2": (200, 0), "c3": (0, 300)}, cells=[],
        vehicles={"v1": dict(cell="c3", en=2), "v2": dict(cell="c2", en=2), "v3": dict(cell="c2", en=2)},
        stations={"s1": dict(cell="c2", plugs={"l2": 1}), "s2": dict(cell="c3", plugs={"l2": 1})},
        bases={}, requests={},
    ),
    "trip": dict(
        doc="3 vehicles, 2 requests (one co-located with two vehicles, one with origin = destination elsewhere): dispatch, "
            "re-dispatch, double dispatch, cancellation racing a pickup, interruption attempts, low energy",
        geom={"c1": (0, 0), "c2": (700, 0)}, cells=["c2"],
        vehicles={"v1": dict(cell="c1", en=1), "v2": dict(cell="c1", en=2), "v3": dict(cell="c2", en=2)},
        stations={}, bases={},
        requests={"r1": dict(o="c1", d="c2"), "r2": dict(o="c2", d="c2")},
    ),
    "fleet": dict(
        doc="2 fleets; vehicles in one / none; private and public station, private base, requests of either fleet",
        geom={"c1": (0, 0), "c2": (700, 0)}, cells=["c2"],
        vehicles={"v1": dict(cell="c1", en=2, fleets=["fa"]), "v2": dict(cell="c1", en=2)},
        stations={"s1": dict(cell="c1", plugs={"dcfc": 1}, fleets=["fb"]), "s2": dict(cell="c2", plugs={"dcfc": 1})},
        bases={"b1": dict(cell="c1", stalls=1, station="s2", fleets=["fb"])},
        requests={"r1": dict(o="c1", d="c2", fleets=["fa"]), "r2": dict(o="c1", d="c2", fleets=["fb"])},
    ),
    "sim": dict(
        doc="the faithful constants for simulation mode (too large to exhaust): 4 vehicles incl. a combustion vehicle and "
            "fleet members, 2 stations x 2 plug types + a base station, 2 bases, 3 requests, 2 fleets",
        geom={"c1": (0, 0), "c2": (700, 0), "c3": (0, 600), "c4": (1500, 100)}, cells=["c1", "c2", "c3", "c4"],
        vehicles={"v1": dict(cell="c1", en=2), "v2": dict(cell="c1", en=1, fleets=["fa"]),
                  "v3": dict(cell="c2", en=3, fleets=["fa", "fb"]), "v4": dict(cell="c3", en=2, fleets=["fb"], kind="gasoline")},
        stations={"s1": dict(cell="c2", plugs={"dcfc": 1, "l2": 1}), "s2": dict(cell="c4", plugs={"dcfc": 1, "gas": 1}, fleets=["fb"]),
                  "bs1": dict(cell="c3", plugs={"l2": 1})},
        bases={"b1": dict(cell="c3", stalls=1, station="bs1"), "b2": dict(cell="c1", stalls=2, station=None, fleets=["fa"])},
        requests={"r1": dict(o="c1", d="c2", fleets=["fa"]), "r2": dict(o="c2", d="c4", fleets=["fa"]),
                  "r3": dict(o="c4", d="c4", fleets=["fb"])},
        extra='CONSTANT SimDepth\nmcExport == ExportAt(SimDepth)\n',
    ),
}


def _s(x: str) -> str:
    return f'"{x}"'


def _set(xs) -> str:
    return "{" + ", ".join(_s(x) for x in xs) + "}"


def _case(var: str, arms: List[tuple]) -> str:
    """a function body by cases on `var`"""
    if len(arms) == 1:
        return arms[0][1]
    parts = [f'{var} = {_s(k)} -> {v}' for k, v in arms[:-1]]
    return "CASE " + "\n      [] ".join(parts) + f"\n      [] OTHER -> {arms[-1][1]}"


def tla_module(name: str, w: Dict[str, Any]) -> str:
    mod = f"MC_{name}"
    vs = sorted(w["vehicles"])
    out = [f"{'-' * 30} MODULE {mod} {'-' * 30}",
           f"(* GENERATED by hv/mcworlds.py - do not edit.  {w['doc']} *)", "EXTENDS HiveModel", ""]
    out.append(f"mcVehicles == {_set(vs)}")
    out.append("mcVRank == [v \\in mcVehicles |-> " + _case("v", [(v, str(k + 1)) for k, v in enumerate(vs)]) + "]")

    def vdef(v):
        d = w["vehicles"][v]
        return (f'[pos |-> {_s(d["cell"])}, fleets |-> {_set(d.get("fleets", []))}, kind |-> {_s(d.get("kind", "electric"))}, '
                f'pool |-> {"TRUE" if d.get("pool") else "FALSE"}, en |-> {d["en"]}]')

    out.append("mcVDef == [v \\in mcVehicles |->\n      " + _case("v", [(v, vdef(v)) for v in vs]) + "]")

    def fn(domain: List[str], var: str, body) -> str:
        if not domain:
            return "<<>>"
        return f"[{var} \\in {_set(domain)} |->\n      " + _case(var, [(k, body(k)) for k in domain]) + "]"

    def stdef(s):
        d = w["stations"][s]
        plugs = sorted(d["plugs"])
        pl = "[p \\in " + _set(plugs) + " |-> " + _case("p", [(p, f'[tot |-> {d["plugs"][p]}, kind |-> {_s(PLUG_KIND[p])}]') for p in plugs]) + "]"
        return f'[pos |-> {_s(d["cell"])}, fleets |-> {_set(d.get("fleets", []))}, pl |-> {pl}]'

    out.append("mcStDef == " + fn(sorted(w["stations"]), "s", stdef))
    out.append("mcBsDef == " + fn(sorted(w["bases"]), "b", lambda b: (
        f'[pos |-> {_s(w["bases"][b]["cell"])}, fleets |-> {_set(w["bases"][b].get("fleets", []))}, '
        f'tot |-> {w["bases"][b]["stalls"]}, st |-> {_s(w["bases"][b]["station"] or "")}]')))
    out.append("mcRqDef == " + fn(sorted(w["requests"]), "r", lambda r: (
        f'[pos |-> {_s(w["requests"][r]["o"])}, dpos |-> {_s(w["requests"][r]["d"])}, '
        f'fleets |-> {_set(w["requests"][r].get("fleets", []))}, pool |-> FALSE]')))
    out.append(f"mcCells == {_set(w['cells'])}")
    out.append('mcHistAlias == [hist_json |-> ToJson(hist)]')
    out.append('mcView == <<veh, st, bs, req, seen, now, ph, todo, order>>')
    if w.get("extra"):
        out.append(w["extra"].rstrip())
    out.append("=" * 77)
    return "\n".join(out) + "\n"


def ensure_modules() -> None:
    """(re)write spec/MC_*.tla when missing or stale; atomic, so concurrent checks do not disturb each other"""
    for name, w in WORLDS.items():
        text = tla_module(name, w)
        path = SPEC / f"MC_{name}.tla"
        if path.exists() and path.read_text() == text:
            continue
        fd, tmp = tempfile.mkstemp(dir=str(SPEC), suffix=".tmp")
        with os.fdopen(fd, "w") as f:
            f.write(text)
        os.replace(tmp, path)


def max_e(name: str) -> int:
    return max(v["en"] for v in WORLDS[name]["vehicles"].values())


def concretise(name: str, beh: List[Dict[str, Any]], run_id: str, max_e_: int, dt: int = 60) -> Dict[str, Any]:
    """a hive scenario (world dict) plus the instruction schedule of one model behaviour"""
    from hv import world

    W = WORLDS[name]
    geom = {c: world.at(*xy) for c, xy in W["geom"].items()}
    admit = {e["r"]: int(e["t"]) for e in beh if e["a"] == "admit"}
    steps = max([int(e["t"]) for e in beh] + [1]) + 4
    fleet_ids = sorted({f for coll in ("vehicles", "stations", "bases", "requests") for d in W[coll].values() for f in d.get("fleets", [])})
    fleets = {f: {"vehicles": [], "stations": [], "bases": []} for f in fleet_ids}
    vehicles, stations, bases, requests = [], [], [], []
    for vid, v in sorted(W["vehicles"].items()):
        lat, lon = geom[v["cell"]]
        kind = v.get("kind", "electric")
        soc = 1.0 if v["en"] >= max_e_ else SOC[kind][v["en"]]
        vehicles.append({"id": vid, "lat": lat, "lon": lon, "mech": MECH[kind], "soc": soc})
        for f in v.get("fleets", []):
            fleets[f]["vehicles"].append(vid)
    for sid, s in sorted(W["stations"].items()):
        lat, lon = geom[s["cell"]]
        stations.append({"id": sid, "lat": lat, "lon": lon, "plugs": [(PLUG[p], n, True) for p, n in sorted(s["plugs"].items())]})
        for f in s.get("fleets", []):
            fleets[f]["stations"].append(sid)
    for bid, b in sorted(W["bases"].items()):
        lat, lon = geom[b["cell"]]
        bases.append({"id": bid, "lat": lat, "lon": lon, "station": b["station"], "stalls": b["stalls"]})
        for f in b.get("fleets", []):
            fleets[f]["bases"].append(bid)
    for rid, t in sorted(admit.items(), key=lambda kv: (kv[1], kv[0])):
        r = W["requests"][rid]
        fl = r.get("fleets", [])
        # admitted in the first step that begins after the departure time: step t begins at t*dt
        requests.append({"id": rid, "o": geom[r["o"]], "d": geom[r["d"]], "dep": dt * (t + 1) - 1, "pax": 1,
                         "fleet": fl[0] if fl else None})
    sched: Dict[str, List[Dict[str, Any]]] = {}
    for e in beh:
        if e["a"] == "instr":
            sched.setdefault(str(int(e["t"])), []).append({"v": e["v"], "kind": e["kind"], "tgt": e["tgt"], "plug": e["plug"]})
    # the run starts at time dt, so that model step t begins at dt*(t+1) > departure time dt*(t+1)-1
    w = {"name": run_id, "dt": dt, "start": dt, "end": dt * (steps + 1), "cancel": 4 * dt, "vehicles": vehicles,
         "requests": requests, "stations": stations, "bases": bases, "rate": (2.0, 0.0, 0.0)}
    if fleet_ids:
        w["fleets"] = fleets
    return {"world": w, "schedule": sched, "steps": steps, "cells": geom}
