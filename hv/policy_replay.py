"""Model -> code for spec/HiveControl.tla: every row of the decision table TLC enumerated is built with REAL objects
(a loaded scenario whose entities are then rearranged through simulation_state_ops), the real driver is asked
(`driver_state.generate_instruction`) and the outcome is judged by TLC (`DriverOK` on the facts logged from those real
objects, trace mode).  A row whose construction does not reproduce the row's facts is counted as "not realised" (a
limitation of this builder, e.g. a station without any plug), never as a finding.

Like everything about HiveControl this is beyond the listed properties: mismatches are conformance divergences."""
from __future__ import annotations

import json
import random
from dataclasses import replace
from pathlib import Path
from typing import Any, Dict, List, Optional, Tuple

from hv import tlc, world
from hv.common import Ctx, MachineryError
from hv.policy import NOI, driver_facts

# plug patterns of the table (spec/HiveControl.tla PlugSets) -> the station of the policy world that shows that pattern to
# a battery-electric vehicle (ids rank alphabetically: DCFC < GAS_PUMP < LEVEL_1 < LEVEL_2)
PATTERN_STATION = {
    ((1, 1, True),): "st2",                          # one valid plug
    ((2, 1, True), (1, 2, True)): "st3",             # DCFC (fast, first id) and LEVEL_1 (slow): the slow one is chosen
    ((1, 1, False), (2, 2, True)): "st4",            # GAS_PUMP (not valid) and LEVEL_2
    ((1, 1, False),): "st5",                         # nothing the vehicle can use
}
STATION_PLUGS = {"st2": [("LEVEL_2", 2, False)], "st3": [("DCFC", 1, False), ("LEVEL_1", 1, False)],
                 "st4": [("GAS_PUMP", 1, False), ("LEVEL_2", 1, False)], "st5": [("GAS_PUMP", 1, False)]}


def policy_world() -> Dict[str, Any]:
    l0, l_near = world.at(0, 0), world.at(5000, 0)
    stations = [{"id": sid, "lat": l0[0], "lon": l0[1], "plugs": pl} for sid, pl in STATION_PLUGS.items()]
    stations.append({"id": "s_pub", "lat": l_near[0], "lon": l_near[1], "plugs": [("DCFC", 2, True)]})
    bases = [{"id": "b1", "lat": l0[0], "lon": l0[1], "station": None, "stalls": 5},
             {"id": "b2", "lat": l0[0], "lon": l0[1], "station": None, "stalls": 5}]
    vehicles = [{"id": "v", "lat": l0[0], "lon": l0[1], "mech": "leaf_50", "soc": 0.5},
                {"id": "w", "lat": l0[0], "lon": l0[1], "mech": "toyota_corolla", "soc": 0.5}]
    return {"name": "policy", "dt": 60, "start": 0, "end": 6000, "cancel": 6000, "vehicles": vehicles, "requests": [],
            "stations": stations, "bases": bases, "schedules": [("day", "00:00:00", "23:59:59")], "focus": "policy"}


def export_rows(ctx: Ctx) -> List[Dict[str, Any]]:
    cfg = ctx.work / "control_rows.cfg"
    cfg.write_text("SPECIFICATION TableSpec\nINVARIANT ExportedRow\nCHECK_DEADLOCK FALSE\n")
    res = tlc.run_tlc("HiveControl", str(cfg), ctx.work, name="HiveControl-rows", workers=1, timeout=1500, heap="6g")
    tlc.require_ok(res)
    rows = [json.loads(tlc.tla_str_to_py(x)) for x in tlc.printed(res, "ROW")]
    if not rows:
        raise MachineryError("HiveControl exported no rows")
    return rows


class Builder:
    def __init__(self, work: Path):
        import h3

        scen = world.write_world(work / "policy_world", policy_world())
        self.rp = world.load(scen, work / "out", suffix="policy")
        self.sim0, self.env = self.rp.s, self.rp.e
        self.cells = {"l0": h3.geo_to_h3(*world.at(0, 0), 15), "near": h3.geo_to_h3(*world.at(5000, 0), 15),
                      "far": h3.geo_to_h3(45.0, -104.99, 15)}        # about 580 km north of the scenario
        # two request search cells, named by the order of their ids
        a = h3.h3_to_parent(h3.geo_to_h3(*world.at(20000, 0), 15), self.sim0.sim_h3_search_resolution)
        b = h3.h3_to_parent(h3.geo_to_h3(*world.at(-20000, 0), 15), self.sim0.sim_h3_search_resolution)
        self.hex = sorted([a, b])

    # -- one row --------------------------------------------------------------------------------------------------
    def realise(self, r: Dict[str, Any]):
        """returns (sim, vehicle) or None when this builder cannot make the row"""
        import h3
        import immutables

        from nrel.hive.model.entity_position import EntityPosition
        from nrel.hive.model.membership import Membership
        from nrel.hive.resources import mock_lobster as ml
        from nrel.hive.state.driver_state.autonomous_driver_state.autonomous_available import AutonomousAvailable
        from nrel.hive.state.driver_state.autonomous_driver_state.autonomous_driver_attributes import AutonomousDriverAttributes
        from nrel.hive.state.driver_state.human_driver_state.human_driver_attributes import HumanDriverAttributes
        from nrel.hive.state.driver_state.human_driver_state.human_driver_state import HumanAvailable, HumanUnavailable
        from nrel.hive.state.driver_state.human_driver_state.human_unavailable_charge_parameters import HumanUnavailableChargeParameters
        from nrel.hive.state.simulation_state import simulation_state_ops as ops
        from nrel.hive.state.vehicle_state import (charge_queueing, charging_base, charging_station, dispatch_base,
                                                   dispatch_station, dispatch_trip, idle, out_of_service, repositioning,
                                                   reserve_base, servicing_trip)

        sim, env = self.sim0, self.env
        drv, act = r["drv"], r["act"]
        if act in ("DispatchPoolingTrip", "ServicingPoolingTrip"):
            return None
        vid = "v" if r["electric"] else "w"
        other = "w" if vid == "v" else "v"
        sim = ops.remove_vehicle(sim, other)[1]
        veh = sim.vehicles[vid]
        mech = env.mechatronics[veh.mechatronics_id]
        cap = getattr(mech, "battery_capacity_kwh", None) or mech.tank_capacity_gallons
        et = list(veh.energy.keys())[0]

        # which station serves the base (sbase for autonomous rows, home for human rows)
        plugs_key = "home_plugs" if drv == "unavail" else "sbase_plugs"
        st_key, ok_key = ("home_st", "home_st_ok") if drv == "unavail" else ("sbase_st", "sbase_st_ok")
        pattern = tuple((p["rr"], p["ir"], p["valid"]) for p in r[plugs_key])
        station_id = None
        if r[st_key]:
            if not r[ok_key]:
                station_id = "s_missing"
            elif pattern in PATTERN_STATION:
                station_id = PATTERN_STATION[pattern]
            else:
                return None                      # a station without any plug cannot be built
        base_present = r["home_ok"] if drv == "unavail" else (r["sbase_ok"] if act in ("ReserveBase", "ChargingBase") else True)

        def on_error(x):
            return x[1] if isinstance(x, tuple) else x

        # bases
        for bid in ("b1", "b2"):
            b = sim.bases[bid]
            if bid == "b1":
                if not base_present:
                    sim = on_error(ops.remove_base(sim, bid))
                    continue
                b = replace(b, station_id=station_id)
            if drv == "auto" and act == "Idle":
                want = r["bases_any"]
                if bid not in want and not (bid == "b1" and want == []):
                    sim = on_error(ops.remove_base(sim, bid))
                    continue
                if want == []:
                    b = replace(b, membership=Membership.from_tuple(("ops",)))
            elif bid == "b2":
                sim = on_error(ops.remove_base(sim, bid))
                continue
            sim = ops.modify_entity(sim, b)
        # stations a human driver may be sent to
        if drv == "unavail" and r["stations"] == []:
            for sid in sorted(sim.stations.keys()):
                sim = ops.modify_entity(sim, sim.stations[sid].set_membership(("ops",)))
        # position
        where = "l0"
        if drv == "unavail" and not r["at_home"]:
            where = "far" if r["cant_home"] and not r["range_zero"] else "near"
        pos = sim.road_network.position_from_geoid(self.cells[where])
        # energy
        if r["range_zero"]:
            level = 0.0
        elif r["full"]:
            level = cap
        elif r["soc_lim"]:
            level = cap * 0.9
        else:
            level = cap * 0.5
        veh = veh.modify_position(pos).modify_energy(immutables.Map({et: level}))
        # activity
        here = pos
        away = sim.road_network.position_from_geoid(self.cells["near" if where != "near" else "l0"])
        route = sim.road_network.route(here, away)
        plug = "LEVEL_2"
        if act == "Idle":
            vs = replace(idle.Idle.build(vid), idle_duration=env.config.dispatcher.idle_time_out_seconds + 60 if r["idle_over"] else 0)
        elif act == "Repositioning":
            vs = repositioning.Repositioning.build(vid, route)
        elif act == "DispatchTrip":
            vs = dispatch_trip.DispatchTrip.build(vid, "r_none", route)
        elif act == "ServicingTrip":
            req = ml.mock_request_from_geoids(request_id="r_on_board", origin=here.geoid, destination=away.geoid)
            vs = servicing_trip.ServicingTrip.build(vid, req, sim.sim_time, route)
        elif act == "DispatchStation":
            vs = dispatch_station.DispatchStation.build(vid, "s_pub", route, "DCFC")
        elif act == "ChargingStation":
            vs = charging_station.ChargingStation.build(vid, "s_pub", "DCFC")
        elif act == "ChargeQueueing":
            vs = charge_queueing.ChargeQueueing.build(vid, "s_pub", "DCFC", sim.sim_time)
        elif act == "DispatchBase":
            vs = dispatch_base.DispatchBase.build(vid, "b1", route)
        elif act == "ReserveBase":
            vs = reserve_base.ReserveBase.build(vid, "b1")
        elif act == "ChargingBase":
            vs = charging_base.ChargingBase.build(vid, "b1", plug)
        elif act == "OutOfService":
            vs = out_of_service.OutOfService.build(vid)
        else:
            return None
        veh = veh.modify_vehicle_state(vs)
        # driver
        if drv == "auto":
            ds = AutonomousAvailable(AutonomousDriverAttributes(vid))
        else:
            attrs = HumanDriverAttributes(vid, "day", "b1", False)
            if drv == "avail":
                ds = HumanAvailable(attrs)
            else:
                rng_km = mech.range_remaining_km(veh)
                ds = HumanUnavailable(attrs, HumanUnavailableChargeParameters(rng_km + 50.0 if r["below_target"] else None))
        veh = veh.modify_driver_state(ds)
        sim = ops.modify_entity(sim, veh)
        # waiting requests (the density the on-shift human driver looks at)
        if drv == "avail":
            k = 0
            for hx in r["hexes"]:
                cell = self.hex[hx["hr"] - 1]
                for _ in range(hx["n"]):
                    k += 1
                    g = h3.h3_to_center_child(cell, 15) if k % 2 else sorted(h3.h3_to_children(h3.h3_to_center_child(cell, 14), 15))[0]
                    req = ml.mock_request_from_geoids(request_id=f"q{k}", origin=g, destination=self.cells["l0"])
                    res = ops.add_request_safe(sim, req)
                    sim = res.unwrap()
        return sim, sim.vehicles[vid]

    @staticmethod
    def matches(r: Dict[str, Any], f: Dict[str, Any]) -> bool:
        """did the construction reproduce the facts this driver's decision depends on?"""
        if f is None or f["drv"] != r["drv"] or f["act"] != r["act"]:
            return False
        keys = ["soc_lim", "full"]
        if r["drv"] == "auto":
            keys += ["idle_over", "sbase_ok", "sbase_st_ok"]
            if (f["sbase_st"] != "") != (r["sbase_st"] != ""):
                return False
            if r["act"] == "Idle" and (len(f["bases_any"]) != len(r["bases_any"])):
                return False
            if [(p["rr"], p["ir"], p["valid"]) for p in f["sbase_plugs"]] != [(p["rr"], p["ir"], p["valid"]) for p in r["sbase_plugs"]]:
                return False
        elif r["drv"] == "avail":
            keys += ["idle_over"]
            if [(h["n"], h["hr"]) for h in f["hexes"]] != [(h["n"], h["hr"]) for h in r["hexes"]]:
                return False
        else:
            keys += ["home_ok", "at_home", "home_st_ok", "below_target", "range_zero", "cant_home", "electric"]
            if (f["home_st"] != "") != (r["home_st"] != ""):
                return False
            if (f["stations"] == []) != (r["stations"] == []):
                return False
            if [(p["rr"], p["ir"], p["valid"]) for p in f["home_plugs"]] != [(p["rr"], p["ir"], p["valid"]) for p in r["home_plugs"]]:
                return False
        return all(bool(f[k]) == bool(r[k]) for k in keys)


def run(ctx: Ctx, sample: Optional[int] = None) -> None:
    """export the table, build each row (or a sample of `sample` rows), ask the real driver, let TLC judge"""
    from hv.tracer import project_instruction

    rows = export_rows(ctx)
    if sample:
        # every row of the small tables (on-shift human driver), a sample of the two large ones
        rnd = random.Random(ctx.seed)
        picked = []
        for drv in ("auto", "avail", "unavail"):
            part = [r for r in rows if r["drv"] == drv]
            picked += part if len(part) <= sample else rnd.sample(part, sample)
        rows = picked
    b = Builder(ctx.work)
    out = ctx.work / "control_table.policy"
    realised = skipped = crashed = 0
    with out.open("w") as f:
        for r in rows:
            try:
                made = b.realise(r)
            except Exception:
                made = None
                crashed += 1
            if made is None:
                skipped += 1
                continue
            sim, veh = made
            facts = driver_facts(veh, sim, b.env)
            if not b.matches(r, facts):
                skipped += 1
                continue
            ins = veh.driver_state.generate_instruction(sim, b.env, None)
            if ins is None:
                facts["obs"] = dict(NOI)
            else:
                p = project_instruction(ins)
                facts["obs"] = {"k": p["kind"], "tgt": p["tgt"], "plug": p["plug"]}
            f.write(json.dumps({"t": 0, "drivers": [facts], "cfm": {"present": False, "complete": False, "emitted": [], "veh": []}},
                               separators=(",", ":")) + "\n")
            realised += 1
    cov = ctx.coverage.setdefault("control", {})
    cov["table_rows_exported"] = len(rows)
    cov["table_rows_executed_in_real_drivers"] = realised
    cov["table_rows_not_realised_by_the_builder"] = skipped
    if crashed:
        cov["table_rows_builder_errors"] = crashed
    if realised < len(rows) // 4:
        raise MachineryError(f"only {realised} of {len(rows)} rows of HiveControl's table could be built with real objects")
    from hv import control

    control.validate(ctx, [out.with_suffix(".ndjson")], label="table rows")
    ctx.log(f"HiveControl: {realised} of {len(rows)} table rows executed in the real drivers ({skipped} not realised)")
