"""spec/HiveControl.tla: the built-in controller (driver policies, charging fleet manager).

Not a listed property: the decision table is model-checked (table mode) and every step of the recorded runs is compared
with it (trace mode).  A mismatch is a conformance DIVERGENCE of the run (reported, recorded in the evidence), never a
violation of the property whose check happens to run it."""
from __future__ import annotations

import concurrent.futures as cf
import json
import os
from pathlib import Path
from typing import Any, Dict, List, Sequence

from hv import tlc
from hv.common import Ctx, MachineryError

TABLE_INV = ["T_Total", "T_Deterministic", "T_BusyNeverInstructed", "T_OffShiftNeverSeeksWork",
             "T_OnShiftNeverGoesHome", "T_FullNeverPlugsIn", "T_PlugIsValid"]


def enable() -> None:
    """runs produced from now on also log the policy facts (sibling *.policy files)"""
    os.environ["HV_POLICY"] = "1"


def run_table(ctx: Ctx) -> None:
    cfg = ctx.work / "control_table.cfg"
    cfg.write_text("SPECIFICATION TableSpec\n" + "".join(f"INVARIANT {i}\n" for i in TABLE_INV) + "CHECK_DEADLOCK FALSE\n")
    res = tlc.run_tlc("HiveControl", str(cfg), ctx.work, name="HiveControl-table", workers=8, timeout=900)
    tlc.require_ok(res, allow_violations=True)
    if res.violated:
        raise MachineryError(f"HiveControl's decision table violates its own sanity laws {res.violated}")
    ctx.add_model(res)
    ctx.coverage.setdefault("control", {})["decision_table_rows"] = res.distinct
    ctx.log(f"HiveControl: decision table of the built-in drivers, {res.distinct} rows, sanity laws hold")


def _one(args):
    path, cfg, work = args
    return path, tlc.run_tlc("HiveControl", cfg, Path(work), name=f"control:{Path(path).name}", workers=1, timeout=3000,
                             env={"TRACE_FILE": str(path)}, heap="2g")


def validate(ctx: Ctx, trace_files: Sequence[Path], label: str = "recorded runs") -> None:
    files = [Path(f).with_suffix(".policy") for f in trace_files]
    files = [f for f in files if f.exists() and f.stat().st_size > 0]
    cov = ctx.coverage.setdefault("control", {}).setdefault(label, {})
    if not files:
        cov["policy_steps_checked"] = 0
        return
    cfg = ctx.work / "control_trace.cfg"
    cfg.write_text("SPECIFICATION TraceSpec\nPOSTCONDITION Done\nCHECK_DEADLOCK FALSE\n")
    with cf.ThreadPoolExecutor(max_workers=12) as ex:
        results = list(ex.map(_one, [(str(f), str(cfg), str(ctx.work)) for f in files]))
    seen, steps, ndiv = set(), 0, 0
    for path, res in results:
        tlc.require_ok(res)
        viol = tlc.printed(res, "VIOL")
        if not viol:
            raise MachineryError(f"HiveControl printed no verdict for {path}:\n" + "\n".join(res.out.splitlines()[-20:]))
        for v in json.loads(tlc.tla_str_to_py(viol[-1])):
            ndiv += 1
            line = _line(Path(path), v["line"])
            fact = next((d for d in line.get("drivers", []) if d.get("v") == v["w"]), None) if v["c"] == "driver_policy" else line.get("cfm")
            ctx.divergence(action="HiveControl", what=v["c"], detail=v["s"], witness=v["w"], line=v["line"], count=v["n"],
                           run=Path(path).name, excerpt=[json.dumps(fact)[:900]])
        for c in json.loads(tlc.tla_str_to_py((tlc.printed(res, "COVR") or ["[]"])[-1])):
            seen.add(tuple(c[:3]))
        steps += max(0, res.distinct - 1)
    cov["policy_steps_checked"] = steps
    cov["distinct_decisions_observed"] = sorted("/".join(x) for x in seen)
    cov["policy_divergences"] = ndiv
    ctx.log(f"HiveControl ({label}): {steps} steps, {len(seen)} distinct (driver, activity, decision) cases, {ndiv} divergences")


def _line(path: Path, n: int) -> Dict[str, Any]:
    with path.open() as f:
        for k, text in enumerate(f, start=1):
            if k == n:
                return json.loads(text)
    return {}
