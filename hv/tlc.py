"""Running TLC (model checking, simulation, trace validation) and parsing what it prints."""
from __future__ import annotations

import json
import os
import re
import shutil
import subprocess
import time
from pathlib import Path
from typing import Any, Dict, List, Optional, Sequence

from hv.common import SPEC, MachineryError

JAR = "/opt/veriftools/tla/tla2tools.jar"
COMMUNITY = "/opt/veriftools/tla/CommunityModules-deps.jar"


def _classpath() -> str:
    # mirror what the `tlc` wrapper does: tla2tools + community modules
    cands = [JAR] + sorted(str(p) for p in Path("/opt/veriftools/tla").glob("*.jar") if str(p) != JAR)
    return ":".join(cands)


class TLCResult:
    def __init__(self, name: str):
        self.name = name
        self.generated = 0
        self.distinct = 0
        self.depth = 0
        self.wall = 0.0
        self.ok = False  # finished without error
        self.violated: List[str] = []  # names of violated invariants / properties
        self.errors: List[str] = []
        self.out = ""
        self.coverage: Dict[str, int] = {}
        self.prints: List[Any] = []  # PrintT payloads (raw strings)
        self.timed_out = False

    def summary(self) -> Dict[str, Any]:
        return {
            "config": self.name,
            "distinct_states": self.distinct,
            "states_generated": self.generated,
            "depth": self.depth,
            "wall_s": round(self.wall, 1),
            "complete": self.ok and not self.timed_out,
            "violated": self.violated,
        }


def run_tlc(
    module: str,
    cfg: str,
    work: Path,
    *,
    name: Optional[str] = None,
    workers: int = 16,
    timeout: int = 900,
    simulate: Optional[str] = None,
    depth: Optional[int] = None,
    env: Optional[Dict[str, str]] = None,
    coverage: bool = False,
    extra: Sequence[str] = (),
    spec_dir: Path = SPEC,
    heap: str = "8g",
    deadlock: bool = False,
    seed: Optional[int] = None,
) -> TLCResult:
    """run TLC on spec_dir/module.tla with spec_dir/cfg (or an absolute cfg path)"""
    name = name or cfg
    res = TLCResult(name)
    meta = work / f"meta-{re.sub(r'[^A-Za-z0-9_.-]', '_', name)}-{os.getpid()}-{int(time.time()*1000)%100000}"
    cfg_path = Path(cfg) if os.path.isabs(cfg) else spec_dir / cfg
    cmd = [
        "java", f"-Xmx{heap}", "-Xss64m", "-XX:+UseParallelGC", "-cp", _classpath(), "tlc2.TLC",     # deep recursive operators over long traces
        "-workers", str(workers), "-metadir", str(meta), "-noGenerateSpecTE",
        "-config", str(cfg_path),
    ]
    if not deadlock:
        cmd += ["-deadlock"]  # -deadlock DISABLES deadlock checking
    if simulate is not None:
        cmd += ["-simulate", simulate]
    if depth is not None:
        cmd += ["-depth", str(depth)]
    if seed is not None:
        cmd += ["-seed", str(seed)]
    if coverage:
        cmd += ["-coverage", "1"]
    cmd += list(extra)
    cmd += [str(spec_dir / f"{module}.tla")]
    e = dict(os.environ)
    if env:
        e.update(env)
    t0 = time.time()
    try:
        p = subprocess.run(cmd, cwd=str(spec_dir), env=e, capture_output=True, text=True, timeout=timeout)
        res.out = p.stdout + p.stderr
        rc = p.returncode
    except subprocess.TimeoutExpired as ex:
        res.out = (ex.stdout.decode() if isinstance(ex.stdout, bytes) else (ex.stdout or "")) + "\n[timeout]"
        res.timed_out = True
        rc = -1
    res.wall = time.time() - t0
    shutil.rmtree(meta, ignore_errors=True)
    _parse(res, rc)
    return res


_FINAL = re.compile(r"(\d+) states generated, (\d+) distinct states found, (\d+) states left on queue")
_DEPTH = re.compile(r"The depth of the complete state graph search is (\d+)")
_INV = re.compile(r"Error: Invariant (\S+) is violated")
_PROP = re.compile(r"Error: Action property (\S+) is violated|Error: Temporal properties were violated")
_COV = re.compile(r"^<(\w+) line (\d+), col (\d+) to line (\d+), col (\d+) of module (\w+)>: (\d+):(\d+)", re.M)


def _parse(res: TLCResult, rc: int) -> None:
    out = res.out
    for m in _FINAL.finditer(out):
        res.generated, res.distinct = int(m.group(1)), int(m.group(2))
    m = _DEPTH.search(out)
    if m:
        res.depth = int(m.group(1))
    for m in _INV.finditer(out):
        res.violated.append(m.group(1))
    for m in _PROP.finditer(out):
        res.violated.append(m.group(1) or "temporal")
    for m in _COV.finditer(out):
        res.coverage[m.group(1)] = res.coverage.get(m.group(1), 0) + int(m.group(8))
    finished = "Model checking completed" in out or "Finished in" in out or "Finished computing" in out
    errs = [l for l in out.splitlines() if l.startswith("Error:") or "Exception" in l and "at " not in l]
    errs = [l for l in errs if not _INV.search(l) and not _PROP.search(l)
            and "The behavior up to this point" not in l and "Error: The following behavior" not in l]
    res.errors = errs
    res.ok = finished and not errs and not res.timed_out


def require_ok(res: TLCResult, allow_violations: bool = False) -> None:
    """raise MachineryError unless TLC ran to completion (violations are not machinery failures)"""
    if res.timed_out:
        raise MachineryError(f"TLC timed out on {res.name}")
    if res.errors or (not res.ok and not (allow_violations and res.violated)):
        tail = "\n".join(res.out.splitlines()[-40:])
        raise MachineryError(f"TLC failed on {res.name}: {res.errors[:3]}\n{tail}")


def printed(res: TLCResult, tag: str) -> List[str]:
    """payloads of PrintT(<<tag, payload>>) lines, payload taken as the raw text after the tag"""
    outs = []
    pat = re.compile(r'^<<"' + re.escape(tag) + r'", (.*)>>$')
    for line in res.out.splitlines():
        m = pat.match(line.strip())
        if m:
            outs.append(m.group(1))
    return outs


def tla_str_to_py(s: str) -> str:
    """undo TLC's string printing: "..." with backslash escapes"""
    s = s.strip()
    if s.startswith('"') and s.endswith('"'):
        s = s[1:-1]
    return s.replace('\\"', '"').replace("\\\\", "\\")
