"""Shared machinery of the state-machine properties: bounded model checking of HiveModel, production of real
traces in worker processes, TLC trace validation (monitor + conformance) of the recorded runs."""
from __future__ import annotations

import concurrent.futures as cf
import json
import os
import subprocess
import sys
import time
from pathlib import Path
from typing import Any, Dict, Iterable, List, Optional, Sequence, Tuple

from hv import tlc
from hv.common import REPO, ROOT, SPEC, Ctx, MachineryError

# What the CURRENT TREE does at the deviation points named in HiveCore (TRUE = repaired behaviour).
# If a flag is wrong the conformance check reports a DIVERGENCE at the corresponding action.
TREE_FLAGS = {"FixOOS": True, "FixCB": True, "FixFull": True, "FixQueuePlug": True, "FixFifo": True}


def flags_cfg(flags: Optional[Dict[str, bool]] = None) -> str:
    f = dict(TREE_FLAGS)
    if flags:
        f.update(flags)
    return "\n".join(f"  {k} = {'TRUE' if v else 'FALSE'}" for k, v in sorted(f.items()))


# ---------------------------------------------------------------------------------------------
# bounded model

ALL_KINDS = ["Idle", "OutOfService", "Reposition", "DispatchTrip", "DispatchStation", "ChargeStation",
             "DispatchBase", "ReserveBase", "ChargeBase"]


def model_cfg(module: str, *, max_e: int, max_t: int, move_costs=(0, 1), idle_costs=(0,), kinds: Optional[Sequence[str]] = None,
              bogus: Sequence[str] = (), invariants: Sequence[str] = (), properties: Sequence[str] = (),
              flags: Optional[Dict[str, bool]] = None, record: bool = False, extra: Sequence[str] = ()) -> str:
    def tset(xs):
        return "{" + ", ".join(f'"{x}"' if isinstance(x, str) else str(x) for x in xs) + "}"

    lines = ["SPECIFICATION Spec", "CONSTANTS", flags_cfg(flags),
             "  Vehicles <- mcVehicles", "  VRank <- mcVRank", "  VDef <- mcVDef", "  StDef <- mcStDef",
             "  BsDef <- mcBsDef", "  RqDef <- mcRqDef", "  Cells <- mcCells",
             f"  MaxE = {max_e}", f"  MaxT = {max_t}", f"  MoveCosts = {tset(move_costs)}", f"  IdleCosts = {tset(idle_costs)}",
             f"  Kinds = {tset(kinds or ALL_KINDS)}", f"  BogusTargets = {tset(bogus)}",
             f"  RecordHist = {'TRUE' if record else 'FALSE'}"] + list(extra) + ["CONSTRAINT TimeBound", "CHECK_DEADLOCK FALSE"]
    lines += [f"INVARIANT {i}" for i in invariants]
    lines += [f"PROPERTY {p}" for p in properties]
    return "\n".join(lines) + "\n"


def run_model(ctx: Ctx, module: str, name: str, cfg_text: str, *, timeout: int = 1500, workers: int = 16,
              coverage: bool = False, heap: str = "12g") -> tlc.TLCResult:
    cfg = ctx.work / f"{name}.cfg"
    cfg.write_text(cfg_text)
    ctx.log(f"TLC model {name} ...")
    res = tlc.run_tlc(module, str(cfg), ctx.work, name=name, workers=workers, timeout=timeout, coverage=coverage, heap=heap)
    ctx.log(f"TLC model {name}: {res.distinct} distinct / {res.generated} generated, depth {res.depth}, "
            f"{res.wall:.1f}s, violated={res.violated}")
    tlc.require_ok(res, allow_violations=True)
    ctx.add_model(res)
    return res


# ---------------------------------------------------------------------------------------------
# producing traces in worker processes


def produce(ctx: Ctx, items: List[Dict[str, Any]], *, nproc: int = 14, hashseed: str = "0", timeout: int = 3000) -> List[Path]:
    """split the run descriptions over worker processes; returns the trace files (one per worker)"""
    if not items:
        return []
    nproc = max(1, min(nproc, len(items)))
    # heavier items first, round robin
    items = sorted(items, key=lambda it: -it.get("weight", 1))
    buckets: List[List[Dict[str, Any]]] = [[] for _ in range(nproc)]
    for k, it in enumerate(items):
        buckets[k % nproc].append(it)
    procs = []
    batch = getattr(ctx, "_produce_batches", 0)
    ctx._produce_batches = batch + 1
    env = dict(os.environ)
    env.update({"PYTHONPATH": f"{ROOT}:{REPO}", "NREL_HIVE_VERIF": "1", "PYTHONHASHSEED": hashseed,
                "PYTHONWARNINGS": "ignore", "PYTHONDONTWRITEBYTECODE": "1"})
    for k, b in enumerate(buckets):
        if not b:
            continue
        job = {"work": str(ctx.work / f"w{batch}_{k}"), "out": str(ctx.work / f"trace{batch}_{k}.ndjson"),
               "meta": str(ctx.work / f"trace{batch}_{k}.meta.json"), "items": b}
        jp = ctx.work / f"job{batch}_{k}.json"
        jp.write_text(json.dumps(job))
        p = subprocess.Popen([sys.executable, "-W", "ignore", "-m", "hv.produce", str(jp)], cwd=str(ROOT), env=env,
                             stdout=subprocess.PIPE, stderr=subprocess.STDOUT, text=True)
        procs.append((p, job))
    files = []
    deadline = time.time() + timeout
    for p, job in procs:
        try:
            out, _ = p.communicate(timeout=max(1, deadline - time.time()))
        except subprocess.TimeoutExpired:
            p.kill()
            raise MachineryError("trace production timed out")
        if p.returncode != 0:
            raise MachineryError(f"trace producer failed: {out[-3000:]}")
        meta = json.loads(Path(job["meta"]).read_text())
        for f in meta["failed"]:
            if f.get("origin") != "repo":
                raise MachineryError(f"harness failure in run {f['id']}: {f['error']}\n{f['trace']}")
            # the simulator crashed: not a verdict of a monitor; surfaced to the caller
            ctx.notes.append(f"run {f['id']} raised {f['error']}")
            ctx.coverage.setdefault("crashed_runs", []).append(f)
        ctx.coverage.setdefault("runs", []).extend(meta["runs"])
        if Path(job["out"]).stat().st_size > 0:
            files.append(Path(job["out"]))
    return files


# ---------------------------------------------------------------------------------------------
# trace validation


class TraceVerdict:
    def __init__(self):
        self.viol: List[Dict[str, Any]] = []
        self.divg: List[Dict[str, Any]] = []
        self.cov: set = set()
        self.lines = 0
        self.files = 0
        self.counts: Dict[str, int] = {}


def trace_cfg(enabled: Iterable[str], flags: Optional[Dict[str, bool]] = None, extra_consts: str = "") -> str:
    en = "{" + ", ".join(f'"{p}"' for p in sorted(enabled)) + "}"
    return ("SPECIFICATION TraceSpec\nCONSTANTS\n" + flags_cfg(flags) + f"\n  Enabled = {en}\n" + extra_consts
            + "POSTCONDITION Done\nCHECK_DEADLOCK FALSE\n")


def _validate_one(args) -> Tuple[str, tlc.TLCResult]:
    path, cfg, work, module = args
    res = tlc.run_tlc(module, cfg, Path(work), name=f"trace:{Path(path).name}", workers=1, timeout=3000,
                      env={"TRACE_FILE": str(path)}, heap="3g")
    return str(path), res


def validate(ctx: Ctx, files: Sequence[Path], enabled: Iterable[str], *, flags: Optional[Dict[str, bool]] = None,
             module: str = "HiveTrace", par: int = 12, extra_consts: str = "") -> TraceVerdict:
    cfg = ctx.work / f"{module}.cfg"
    cfg.write_text(trace_cfg(enabled, flags, extra_consts))
    tv = TraceVerdict()
    if not files:
        return tv
    with cf.ThreadPoolExecutor(max_workers=par) as ex:
        results = list(ex.map(_validate_one, [(str(f), str(cfg), str(ctx.work), module) for f in files]))
    for path, res in results:
        tlc.require_ok(res)
        viol = tlc.printed(res, "VIOL")
        divg = tlc.printed(res, "DIVG")
        covr = tlc.printed(res, "COVR")
        lines = [l for l in res.out.splitlines() if l.startswith('<<"LINES"')]
        if not viol or not divg or not lines:
            raise MachineryError(f"trace validation of {path} printed no verdict:\n" + "\n".join(res.out.splitlines()[-30:]))
        for v in json.loads(tlc.tla_str_to_py(viol[-1])):
            v["file"] = Path(path).name
            tv.viol.append(v)
        for d in json.loads(tlc.tla_str_to_py(divg[-1])):
            d["file"] = Path(path).name
            if d["p"] == "Hooks":
                raise MachineryError(f"hook events are missing from the recorded runs ({d['c']} at {d['file']}:{d['line']}): "
                                     f"the instrumentation no longer matches the step pipeline")
            tv.divg.append(d)
        if covr:
            for c in json.loads(tlc.tla_str_to_py(covr[-1])):
                tv.cov.add(tuple(c))
        for raw in tlc.printed(res, "CNTS")[-1:]:
            for c in json.loads(tlc.tla_str_to_py(raw)):
                tv.counts[c["k"]] = tv.counts.get(c["k"], 0) + int(c["n"])
        tv.lines += res.distinct
        tv.files += 1
    return tv


def excerpt(path: Path, line: int, before: int = 3, after: int = 0, maxlen: int = 600) -> List[str]:
    out = []
    with Path(path).open() as f:
        for k, text in enumerate(f, start=1):
            if k > line + after:
                break
            if k >= line - before:
                out.append(f"{k}: {text.strip()[:maxlen]}")
    return out
