"""Worker process: produce traces of real runs.  Invoked as `python -m hv.produce <job.json>` so that every
batch runs in its own interpreter (own PYTHONHASHSEED, no shared state)."""
from __future__ import annotations

import json
import sys
import traceback
from pathlib import Path


def main() -> int:
    job = json.loads(Path(sys.argv[1]).read_text())
    from hv import runs, world

    work = Path(job["work"])
    work.mkdir(parents=True, exist_ok=True)
    out = Path(job["out"])
    meta = {"runs": [], "failed": []}
    with out.open("w") as sink:
        for item in job["items"]:
            tmp = work / f"part-{item['id']}.ndjson"
            try:
                if item["kind"] == "adv":
                    rp, tr, w = runs.run_adv(
                        item["seed"], work, tmp, steps=item.get("steps", 40), mix=item.get("mix"),
                        with_route=item.get("with_route", True), with_index=item.get("with_index", False),
                        world_kwargs=item.get("world_kwargs"), kinds=item.get("kinds"), p_instr=item.get("p_instr"),
                        throttle=bool(item.get("throttle")), cosim=item.get("cosim"), resubmit=bool(item.get("resubmit")),
                    )
                    meta["runs"].append({"id": item["id"], "kind": "adv", "seed": item["seed"], "lines": tr.n,
                                         "vehicles": len(w["vehicles"]), "requests": len(w["requests"]),
                                         "stations": len(w["stations"]), "fleets": bool(w.get("fleets")), "dt": w["dt"],
                                         "price_mode": w.get("price_mode"), "lazy": bool(w.get("lazy"))})
                elif item["kind"] == "shipped":
                    scen = Path(item["scenario"])
                    rp, tr = runs.run_shipped(
                        scen, work, item["steps"], tmp, with_route=item.get("with_route", True),
                        with_index=item.get("with_index", False), sim_overrides=item.get("sim_overrides"),
                        run_id=item["id"], suffix=item["id"],
                    )
                    meta["runs"].append({"id": item["id"], "kind": "shipped", "scenario": scen.name, "lines": tr.n,
                                         "steps": item["steps"]})
                elif item["kind"] == "match":
                    info = runs.run_match(item["seed"], work, tmp, steps=item.get("steps", 6), focus=item.get("focus", "match"))
                    meta["runs"].append({"id": item["id"], "kind": "match", **info})
                elif item["kind"] == "routes":
                    from hv import routes

                    info = routes.write_records(tmp, item)
                    meta["runs"].append({"id": item["id"], "kind": "routes", **info})
                elif item["kind"] == "events":
                    from hv import events

                    info = events.run_events(item, work, tmp)
                    meta["runs"].append({"id": item["id"], "kind": "events", **info})
                elif item["kind"] == "model":
                    rp, tr = runs.run_model_schedule(item["spec"], work, tmp, item["id"])
                    meta["runs"].append({"id": item["id"], "kind": "model", "lines": tr.n, "steps": item["spec"]["steps"]})
                else:
                    raise ValueError(item["kind"])
                with tmp.open() as f:
                    for line in f:
                        sink.write(line)
                tmp.unlink()
                pol = tmp.with_suffix(".policy")     # facts for spec/HiveControl.tla, when HV_POLICY=1
                if pol.exists():
                    with pol.open() as f, out.with_suffix(".policy").open("a") as psink:
                        for line in f:
                            psink.write(line)
                    pol.unlink()
            except Exception as e:  # a crash of the simulator itself is reported, not hidden
                tb = traceback.extract_tb(e.__traceback__)
                import os
                repo = os.environ.get("HIVE_REPO", "/repo").rstrip("/") + "/"
                origin = "repo" if tb and tb[-1].filename.startswith(repo) else "harness"
                meta["failed"].append({"id": item["id"], "error": repr(e), "origin": origin,
                                       "trace": traceback.format_exc()[-2000:]})
                if tmp.exists():
                    tmp.unlink()
    Path(job["meta"]).write_text(json.dumps(meta))
    return 0


if __name__ == "__main__":
    sys.exit(main())
