"""Producing traces of real runs: shipped scenarios and adversarially driven generated worlds."""
from __future__ import annotations

import json
import random
import traceback
from pathlib import Path
from typing import Any, Dict, List, Optional, Sequence, Tuple

from hv import adv, tracer, world

EMPTY_D = {"veh": [], "st": [], "bs": [], "req": [], "rmreq": [], "rmveh": [], "rmst": [], "rmbs": []}


def _emit_to(tr: tracer.Tracer):
    def emit(line: Dict[str, Any]) -> None:
        line = dict(line)
        line.setdefault("d", EMPTY_D)
        line.setdefault("rep", [])
        tr.write(line)

    return emit


def builtin_generators(env, emit):
    from nrel.hive.dispatcher.instruction_generator.charging_fleet_manager import ChargingFleetManager
    from nrel.hive.dispatcher.instruction_generator.dispatcher import Dispatcher

    return [adv.Wrapped(Dispatcher(env.config.dispatcher), emit), adv.Wrapped(ChargingFleetManager(env.config.dispatcher), emit)]


def sched_table(env) -> List[List[Any]]:
    """the shift table as data: [[schedule id, [start, end]]] in seconds of day (the environment only holds closures)"""
    import csv

    path = env.config.input_config.schedules_file
    out = []
    if path:
        with open(path) as f:
            for row in csv.DictReader(f):
                def sec(x):
                    h, m, s_ = x.strip().strip('"').split(":")
                    return int(h) * 3600 + int(m) * 60 + int(s_)
                out.append([row["schedule_id"], [sec(row["start_time"]), sec(row["end_time"])]])
    return out


def whole_seconds(text: Any) -> int:
    """a time stamp of an input file in the simulator's whole seconds since 1970 (epoch seconds, or ISO 8601 with or without a
    fraction of a second: the instant lies in the second that has begun) - parsed here, not with the simulator's own parser"""
    import datetime as _dt
    import math

    try:
        return int(str(text).strip())
    except ValueError:
        t = _dt.datetime.fromisoformat(str(text).strip())
        if t.tzinfo:
            t = t.replace(tzinfo=None)
        return int(math.floor((t - _dt.datetime(1970, 1, 1)).total_seconds()))


def input_tables(sim, env) -> Dict[str, Any]:
    """the timed inputs as data, read from the scenario's own files: request departures and the price table with,
    for every row, the stations it names (by id, or by enclosing region - decided with h3 at the region's resolution)"""
    import csv

    import h3

    from nrel.hive.model.sim_time import SimTime

    cfg = env.config.input_config
    out: Dict[str, Any] = {"reqfile": [], "pricefile": []}
    has_fleets = len(env.fleet_ids) > 0
    with open(cfg.requests_file, encoding="utf-8-sig") as f:
        for row in csv.DictReader(f):
            fleet = row.get("fleet_id") or None
            if has_fleets != bool(fleet):
                continue        # a request whose membership does not fit the scenario is never admitted
            try:
                dep = whole_seconds(row["departure_time"])
                [float(row[c]) for c in ("o_lat", "o_lon", "d_lat", "d_lon")]      # a row that cannot be parsed is skipped
            except Exception:
                continue
            out["reqfile"].append([row["request_id"], dep])
    if cfg.charging_price_file:
        with open(cfg.charging_price_file, encoding="utf-8-sig") as f:
            for k, row in enumerate(csv.DictReader(f)):
                try:
                    t = whole_seconds(row["time"])
                    price = tracer.q(float(row["price_kwh"]), tracer.M_SCALE)
                except Exception:
                    continue
                if "station_id" in row:
                    target, kind = row["station_id"], "station_id"
                    sts = [target] if target in sim.stations else []
                else:
                    target, kind = row["geoid"], "region"
                    try:
                        res = h3.h3_get_resolution(target)
                        sts = sorted(s.id for s in sim.stations.values()
                                     if h3.h3_get_resolution(s.geoid) >= res and h3.h3_to_parent(s.geoid, res) == target)
                        if res > sim.sim_h3_search_resolution:
                            kind = "region_finer_than_search"
                    except Exception:
                        sts = []
                out["pricefile"].append({"time": t, "plug": row["charger_id"], "price": price, "sts": sts, "kind": kind})
    return out


def crank_traced(rp, steps: int, tr: tracer.Tracer, init_extra: Optional[Dict[str, Any]] = None):
    """advance with the real co-simulation entry point, hooks delivering to `tr`"""
    from nrel.hive.app import hive_cosim
    from nrel.hive.util import verif_hooks

    if not verif_hooks.ENABLED:
        raise RuntimeError("hooks are disabled: NREL_HIVE_VERIF=1 must be set before nrel.hive is imported")
    if tr.proj is None:
        extra = dict(init_extra or {})
        extra.setdefault("sched", sched_table(rp.e))
        for k, v in input_tables(rp.s, rp.e).items():
            extra.setdefault(k, v)
        tr.init(rp.s, rp.e, extra)
    verif_hooks.install(tr)
    try:
        res = hive_cosim.crank(rp, steps)
    finally:
        verif_hooks.install(None)
    return res.runner_payload


def set_generators(rp, gens: Sequence[Any]):
    """replace the instruction generators of a loaded payload (what load_simulation does with custom generators)"""
    from nrel.hive.state.simulation_state.update.step_simulation import StepSimulation

    return rp._replace(u=rp.u._replace(step_update=StepSimulation.from_tuple(tuple(gens))))


def run_shipped(scenario: Path, work: Path, steps: int, trace_path: Path, *, with_route: bool = True,
                with_index: bool = False, sim_overrides: Optional[Dict[str, Any]] = None, run_id: str = "shipped",
                write_outputs: bool = False, suffix: str = "run") -> Tuple[Any, tracer.Tracer]:
    rp = world.load(scenario, work / "out", sim_overrides=sim_overrides, write_outputs=write_outputs, suffix=suffix)
    tr = tracer.Tracer(trace_path, with_route=with_route, with_index=with_index, run_id=run_id)
    rp = set_generators(rp, builtin_generators(rp.e, _emit_to(tr)))
    extra = {"builtin": True, "scenario": str(scenario.name)}
    extra.update(scenario_inputs(scenario, sim_overrides))
    rp = crank_traced(rp, steps, tr, extra)
    tr.close()
    return rp, tr


def scenario_inputs(scenario: Path, sim_overrides: Optional[Dict[str, Any]] = None) -> Dict[str, Any]:
    """the request timeout and the step length as the scenario FILE states them (nothing if it leaves them to the defaults)"""
    out: Dict[str, Any] = {}
    try:
        import yaml

        with open(scenario) as f:
            sim = (yaml.safe_load(f) or {}).get("sim") or {}
        sim = dict(sim, **(sim_overrides or {}))
        if "request_cancel_time_seconds" in sim:
            out["cancel"] = int(sim["request_cancel_time_seconds"])
        if "timestep_duration_seconds" in sim:
            out["dt_cfg"] = int(sim["timestep_duration_seconds"])
    except Exception:
        pass
    return out


def preload_requests(rp, reqs: List[Dict[str, Any]]):
    """requests that are already waiting in the initial state (added through the public simulation_state_ops API, as a
    co-simulation user or a test does)"""
    import h3

    from nrel.hive.model.request import Request
    from nrel.hive.model.sim_time import SimTime
    from nrel.hive.state.simulation_state import simulation_state_ops

    sim = rp.s
    for r in reqs:
        res = sim.sim_h3_location_resolution
        req = Request.build(request_id=r["id"], origin=h3.geo_to_h3(r["o"][0], r["o"][1], res),
                            destination=h3.geo_to_h3(r["d"][0], r["d"][1], res), road_network=sim.road_network,
                            departure_time=SimTime.build(int(r["dep"])), passengers=r.get("pax", 1), allows_pooling=False,
                            fleet_id=r.get("fleet"), value=2.5)
        sim = simulation_state_ops.add_request_safe(sim, req).unwrap()
    return rp._replace(s=sim)


def cosim_throttle(rp, tr: tracer.Tracer, rng: random.Random) -> Any:
    """a co-simulation user throttles a plug between steps (Station.scale_charger_rate / set_charger_rate + modify_station)"""
    from returns.result import Failure

    from nrel.hive.state.simulation_state import simulation_state_ops

    sim = rp.s
    sid = rng.choice(sorted(sim.stations.keys()))
    st = sim.stations[sid]
    cid = rng.choice(sorted(st.state.keys()))
    factory = rp.e.chargers[cid].rate
    if rng.random() < 0.5:
        res, what = st.scale_charger_rate(cid, rng.choice([0.1, 0.4, 0.75, 1.0])), "scale_charger_rate"
    else:
        res, what = st.set_charger_rate(cid, factory * rng.choice([0.08, 0.3, 0.6])), "set_charger_rate"
    if isinstance(res, Failure):
        return rp
    sim2 = simulation_state_ops.modify_station_safe(sim, res.unwrap())
    if isinstance(sim2, Failure):
        return rp
    sim2 = sim2.unwrap()
    tr.write({"ev": "cosim", "what": what, "station": sid, "plug": cid, "d": tr.proj.advance(sim2, rp.e), "rep": []})
    return rp._replace(s=sim2)


def cosim_move(rp, tr: tracer.Tracer, rng: random.Random) -> Any:
    """a co-simulation user pushes a copy of a station / base with a "corrected" position through the SAFE entity API
    (runner_payload_ops.modify_entities_safe).  Stations and bases never move: the call must be refused; whatever it
    returns is what the user carries on with."""
    from dataclasses import replace

    from returns.result import Failure

    from nrel.hive.runner import runner_payload_ops

    sim = rp.s
    pool = [sim.stations[k] for k in sorted(sim.stations.keys())] + [sim.bases[k] for k in sorted(sim.bases.keys())]
    others = sorted({e.geoid for e in pool} | {v.geoid for v in sim.get_vehicles()})
    ent = rng.choice(pool)
    dest = [g for g in others if g != ent.geoid]
    if not dest:
        return rp
    pos = sim.road_network.position_from_geoid(rng.choice(dest))
    if pos is None:
        return rp
    res = runner_payload_ops.modify_entities_safe(rp, (replace(ent, position=pos),))
    if isinstance(res, Failure):
        return rp
    rp2 = res.unwrap()
    tr.write({"ev": "cosim", "what": "modify_entities_safe(moved copy)", "entity": ent.id, "d": tr.proj.advance(rp2.s, rp2.e), "rep": []})
    return rp2


def cosim_membership(rp, tr: tracer.Tracer, rng: random.Random) -> Any:
    """a co-simulation user re-assigns a station or base to other fleets between steps (set_membership + modify_entity)"""
    from nrel.hive.state.simulation_state import simulation_state_ops

    sim = rp.s
    fleets = sorted(rp.e.fleet_ids)
    if not fleets:
        return rp
    pool = [sim.stations[k] for k in sorted(sim.stations.keys())] + [sim.bases[k] for k in sorted(sim.bases.keys())]
    pool += [sim.requests[k] for k in sorted(sim.requests.keys()) if sim.requests[k].dispatched_vehicle is None][:3]   # waiting requests too
    ent = rng.choice(pool)
    new = rng.choice([(), (fleets[0],), (fleets[-1],), tuple(fleets)])
    # mostly: the destination of a vehicle that is on its way, handed to a fleet that vehicle does not belong to
    under_way = []
    for v in sim.get_vehicles():
        st = v.vehicle_state
        tgt = getattr(st, "station_id", None) if type(st).__name__ == "DispatchStation" else (
            getattr(st, "base_id", None) if type(st).__name__ == "DispatchBase" else None)
        e = sim.stations.get(tgt) or sim.bases.get(tgt) if tgt else None
        if e is not None:
            deny = [f for f in fleets if f not in v.membership.memberships]
            if deny:
                under_way.append((e, (deny[0],)))
    waiting = [e for e in pool if hasattr(e, "dispatched_vehicle")]
    if waiting and rng.random() < 0.6:
        # a waiting request handed over to the OTHER fleet(s): whoever is sent to it from now on must belong to them
        ent = rng.choice(waiting)
        others = tuple(f for f in fleets if f not in ent.membership.memberships)
        new = others or rng.choice([(fleets[0],), (fleets[-1],)])
    elif under_way and rng.random() < 0.75:
        ent, new = rng.choice(under_way)
    try:
        sim2 = simulation_state_ops.modify_entity(sim, ent.set_membership(new))
    except Exception:
        return rp
    tr.write({"ev": "cosim", "what": "set_membership", "entity": ent.id, "fleets": list(new), "d": tr.proj.advance(sim2, rp.e), "rep": []})
    return rp._replace(s=sim2)


def cosim_speed(rp, tr: tracer.Tracer, rng: random.Random) -> Any:
    """a co-simulation user swaps in a road network with other link speeds (congestion) between steps: the state's
    road_network field is replaced by a copy of the straight-line network with another average speed"""
    import copy

    from nrel.hive.model.roadnetwork.haversine_roadnetwork import HaversineRoadNetwork

    rn = rp.s.road_network
    if not isinstance(rn, HaversineRoadNetwork):
        return rp
    rn2 = copy.copy(rn)
    rn2._AVG_SPEED_KMPH = rng.choice([8, 15, 25, 40, 40, 70, 100])
    sim2 = rp.s._replace(road_network=rn2)
    tr.write({"ev": "cosim", "what": "road_network speeds", "speed": rn2._AVG_SPEED_KMPH, "d": tr.proj.advance(sim2, rp.e), "rep": []})
    return rp._replace(s=sim2)


def cosim_unknown(rp, tr: tracer.Tracer, rng: random.Random) -> Any:
    """a co-simulation user pushes a batch of stations (or bases) through modify_entities_safe in which one id is NOT in
    the simulation: "modify" of something that does not exist must be refused (it cannot be indexed) - whatever the call
    returns is what the user carries on with"""
    from dataclasses import replace

    from returns.result import Failure

    from nrel.hive.runner import runner_payload_ops

    sim = rp.s
    if rng.random() < 0.7 and sim.stations:
        pool = [sim.stations[k] for k in sorted(sim.stations.keys())]
    elif sim.bases:
        pool = [sim.bases[k] for k in sorted(sim.bases.keys())]
    else:
        return rp
    ghost = replace(rng.choice(pool), id=f"ghost{rng.randrange(100)}")
    batch = tuple(pool[: rng.randint(0, 2)]) + (ghost,)
    try:
        res = runner_payload_ops.modify_entities_safe(rp, batch)
    except Exception:
        return rp
    if isinstance(res, Failure):
        return rp
    rp2 = res.unwrap()
    line = {"ev": "cosim", "what": "modify_entities_safe(batch with an unknown id)", "entity": ghost.id, "d": tr.proj.advance(rp2.s, rp2.e), "rep": []}
    if tr.with_index:
        line["idx"] = index_snapshot_of(rp2.s)
    tr.write(line)
    return rp2


def index_snapshot_of(sim):
    return tracer.index_snapshot(sim)


def cosim_stale(rp, tr: tracer.Tracer, rng: random.Random) -> Any:
    """a co-simulation user that re-prices requests working ONE INTERVAL BEHIND: it pushes (through modify_entities_safe)
    copies of the request objects it saw before the previous call of crank.  Requests that were picked up or cancelled in
    the meantime are no longer in the simulation: modifying them must be refused, not bring them back"""
    from returns.result import Failure

    from nrel.hive.runner import runner_payload_ops

    seen = getattr(tr, "_stale_requests", [])
    tr._stale_requests = [rp.s.requests[k] for k in sorted(rp.s.requests.keys())]
    for r in seen:
        try:
            res = runner_payload_ops.modify_entities_safe(rp, (r,))
        except Exception:
            continue
        if isinstance(res, Failure):
            continue
        rp = res.unwrap()
    tr.write({"ev": "cosim", "what": "modify_entities_safe(requests seen one interval ago)", "d": tr.proj.advance(rp.s, rp.e), "rep": []})
    return rp


COSIM = {"stale": cosim_stale, "unknown": cosim_unknown, "throttle": cosim_throttle, "move": cosim_move, "membership": cosim_membership, "speed": cosim_speed}


def run_adv(seed: int, work: Path, trace_path: Path, *, steps: int = 40, mix: Optional[str] = None,
            with_route: bool = True, with_index: bool = False, world_kwargs: Optional[Dict[str, Any]] = None,
            write_outputs: bool = False, kinds: Optional[List[str]] = None, p_instr: Optional[float] = None,
            throttle: bool = False, cosim: Optional[List[str]] = None, resubmit: bool = False) -> Tuple[Any, tracer.Tracer, Dict[str, Any]]:
    """one generated world driven by adversarial generators around (or instead of) the built-in ones"""
    rng = random.Random(seed)
    w = adv.gen_world(rng, n_steps=steps, **(world_kwargs or {}))
    if seed % 3 == 1 and any(r.get("pax", 1) > 1 for r in w["requests"]):
        # a fleet of small cars described with the optional seat column, and parties of two among the customers
        rng3 = random.Random(seed * 17 + 3)
        for v in w["vehicles"]:
            v["seats"] = rng3.choice([1, 1, 2, 4])
    if resubmit and w["requests"]:
        # riders who submit their request AGAIN a step or two later, under the same id, from another street corner (while the
        # first one is usually still waiting): UpdateRequestsFromFile hands the row to add_request_safe (finding F19)
        rng2 = random.Random(seed * 31 + 7)
        again = []
        for r in w["requests"]:
            if rng2.random() < 0.35:
                other = rng2.choice(w["requests"])
                again.append(dict(r, dep=r["dep"] + rng2.choice([1, w["dt"], 2 * w["dt"]]), o=other["o"]))
        w["requests"] = sorted(w["requests"] + again, key=lambda r: (r["dep"], r["id"]))
    scen = world.write_world(work / f"world{seed}", w)
    rp = world.load(scen, work / "out", write_outputs=write_outputs, suffix=f"s{seed}", lazy=bool(w.get("lazy")))
    if w.get("preload"):
        rp = preload_requests(rp, w["preload"])
    tr = tracer.Tracer(trace_path, with_route=with_route, with_index=with_index, run_id=f"adv{seed}")
    emit = _emit_to(tr)
    mix = mix or rng.choice(["adv", "adv+builtin", "builtin+adv", "adv+builtin+adv"])
    gens: List[Any] = []
    parts = mix.split("+")
    for k, part in enumerate(parts):
        if part == "adv":
            gens.append(adv.Adversary(seed * 7 + k, label=f"Adversary{k}", emit=emit, kinds=kinds,
                                      p_instr=p_instr if p_instr is not None else rng.choice([0.25, 0.45, 0.7])))
        elif part == "charge":
            gens.append(adv.ChargeDriver(seed * 7 + k, emit=emit))
        elif part == "queue":
            gens.append(adv.QueueDriver(seed * 7 + k, emit=emit))
        else:
            gens.extend(builtin_generators(rp.e, emit))
    rp = set_generators(rp, gens)
    acts = list(cosim or []) + (["throttle"] if throttle else [])
    # "under the built-in dispatcher" (C17 uniqueness): every trip dispatch comes from the built-in dispatcher - pure
    # built-in runs, or built-in generators next to controllers that never send a vehicle to a request
    no_trips = kinds is not None and not any("Trip" in k for k in kinds)
    only_builtin_dispatches = "builtin" in parts and not acts and all(
        p in ("builtin", "charge", "queue") or (p == "adv" and no_trips) for p in parts)
    extra = {"builtin": all(p == "builtin" for p in parts) or only_builtin_dispatches, "scenario": f"adv{seed}", "mix": mix}
    # the timeout and the step length are the INPUT's (what the scenario file says), not what the loaded configuration reports
    # back: a loader that "normalises" them must not move the deadlines the monitors compute
    extra["cancel"] = int(w.get("cancel", 600))
    extra["dt_cfg"] = int(w["dt"])
    if acts:
        # a co-simulation user acts on the payload between calls of crank
        done = 0
        while done < steps:
            n = min(steps - done, rng.randint(3, 8))
            rp = crank_traced(rp, n, tr, extra)
            done += n
            if done < steps:
                rp = COSIM[rng.choice(acts)](rp, tr, rng)
    else:
        rp = crank_traced(rp, steps, tr, extra)
    tr.close()
    return rp, tr, w


class Scheduled:
    """executes the controller choices of one model behaviour: an ordinary InstructionGenerator"""

    def __new__(cls, *a, **k):
        from nrel.hive.dispatcher.instruction_generator.instruction_generator import InstructionGenerator

        class _Scheduled(InstructionGenerator):
            def __init__(self, schedule, cells, dt, start, emit):
                self.schedule, self.cells, self.dt, self.start, self.emit = schedule, cells, dt, start, emit

            @property
            def name(self):
                return "ModelSchedule"

            def generate_instructions(self, simulation_state, environment):
                import h3
                import nrel.hive.model.roadnetwork.haversine_link_id_ops as h_ops
                from nrel.hive.dispatcher.instruction import instructions as I
                from hv.mcworlds import PLUG
                from hv.tracer import project_instruction

                k = (int(simulation_state.sim_time) - self.start) // self.dt
                out = []
                bogus = {"r?": "r_nope", "s?": "s_nope", "b?": "b_nope"}
                for e in self.schedule.get(str(k), []):
                    v, kind, tgt = e["v"], e["kind"], bogus.get(e["tgt"], e["tgt"])
                    plug = PLUG.get(e["plug"], e["plug"])
                    if kind == "Idle":
                        i = I.IdleInstruction(v)
                    elif kind == "OutOfService":
                        i = I.OutOfServiceInstruction(v)
                    elif kind == "Reposition":
                        lat, lon = self.cells[tgt]
                        g = h3.geo_to_h3(lat, lon, simulation_state.sim_h3_location_resolution)
                        i = I.RepositionInstruction(v, h_ops.geoids_to_link_id(g, g))
                    elif kind == "DispatchTrip":
                        i = I.DispatchTripInstruction(v, tgt)
                    elif kind == "DispatchStation":
                        i = I.DispatchStationInstruction(v, tgt, plug)
                    elif kind == "ChargeStation":
                        i = I.ChargeStationInstruction(v, tgt, plug)
                    elif kind == "DispatchBase":
                        i = I.DispatchBaseInstruction(v, tgt)
                    elif kind == "ReserveBase":
                        i = I.ReserveBaseInstruction(v, tgt)
                    elif kind == "ChargeBase":
                        i = I.ChargeBaseInstruction(v, tgt, plug)
                    else:
                        continue
                    out.append(i)
                self.emit({"ev": "gen", "name": self.name, "instrs": [project_instruction(i) for i in out]})
                return self, tuple(out)

        return _Scheduled(*a, **k)


def run_model_schedule(spec: Dict[str, Any], work: Path, trace_path: Path, run_id: str) -> Tuple[Any, tracer.Tracer]:
    w = spec["world"]
    scen = world.write_world(work / f"world_{run_id}", w)
    rp = world.load(scen, work / "out", suffix=run_id)
    tr = tracer.Tracer(trace_path, run_id=run_id)
    gen = Scheduled(spec["schedule"], spec["cells"], w["dt"], w["start"], _emit_to(tr))
    rp = set_generators(rp, [gen])
    rp = crank_traced(rp, spec["steps"], tr, {"builtin": False, "scenario": run_id, "mix": "model"})
    tr.close()
    return rp, tr


def dispatcher_records(sim, env, sink, run_id: str, counter: List[int]) -> None:
    """call the REAL Dispatcher once per fleet on this state and write one record per call: eligibility facts computed
    independently of the dispatcher, the h3 grid-distance matrix, and the pairs it returned"""
    import h3

    from nrel.hive.dispatcher.instruction_generator.dispatcher import Dispatcher

    cfg = env.config.dispatcher
    fleets = sorted(env.fleet_ids) if len(env.fleet_ids) > 0 else [""]
    vehicles = list(sim.get_vehicles())
    requests = list(sim.get_requests())
    if (len(vehicles) > 8 or len(requests) > 9) and not (len(vehicles) <= 2 and len(requests) <= 1500):
        return          # the optimum is computed inside TLC: small problems, or very lopsided ones
    # ONE call with all fleets, as the step pipeline makes it: its pairs are attributed to the fleet of their request
    # (every request of these worlds names exactly one fleet) and judged fleet by fleet like the separate calls below
    joint: Dict[str, List[Any]] = {f: [] for f in fleets}
    one_fleet_requests = all(len(r.membership.memberships) == 1 for r in requests) and len(fleets) > 1
    if one_fleet_requests:
        _, all_instrs = Dispatcher(cfg).generate_instructions(sim, env)
        by_id = {r.id: r for r in requests}
        for i in all_instrs:
            r = by_id.get(i.request_id)
            if r is not None:
                joint[next(iter(r.membership.memberships))].append(i)
    for f in fleets:
        env_f = env._replace(fleet_ids=frozenset([f]) if f else frozenset())
        _, instrs = Dispatcher(cfg).generate_instructions(sim, env_f)
        veh = []
        for v in vehicles:
            mech = env.mechatronics.get(v.mechatronics_id)
            rng_km = mech.range_remaining_km(v)
            act = type(v.vehicle_state).__name__
            ok = rng_km > cfg.matching_range_km_threshold and not (act == "ChargingBase" and rng_km < cfg.base_charging_range_km_threshold)
            veh.append({"id": v.id, "act": act, "dispatchable": act.lower() in cfg.valid_dispatch_states,
                        "avail": bool(v.driver_state.available), "range_ok": bool(ok),
                        "member": (not f) or (f in v.membership.memberships), "public": len(v.membership.memberships) == 0})
        req = [{"id": r.id, "assigned": r.dispatched_vehicle is not None,
                "grants": (not f) or r.membership.public or (f in r.membership.memberships)} for r in requests]
        dist = [[int(h3.h3_distance(v.geoid, r.geoid)) for r in requests] for v in vehicles]
        counter[0] += 1
        sink.write(json.dumps({"id": f"{run_id}#{counter[0]}", "fleet": f, "time": int(sim.sim_time), "veh": veh, "req": req,
                               "dist": dist, "pairs": [[i.vehicle_id, i.request_id] for i in instrs]}, separators=(",", ":")) + "\n")
        if one_fleet_requests:
            counter[0] += 1
            sink.write(json.dumps({"id": f"{run_id}#{counter[0]}j", "fleet": f, "time": int(sim.sim_time), "veh": veh, "req": req,
                                   "dist": dist, "pairs": [[i.vehicle_id, i.request_id] for i in joint[f]]}, separators=(",", ":")) + "\n")


def run_match(seed: int, work: Path, out_path: Path, steps: int = 6, focus: str = "match") -> Dict[str, Any]:
    """a generated world stepped with the built-in generators; before every step the dispatcher is interrogated"""
    from nrel.hive.app import hive_cosim

    rng = random.Random(seed)
    w = adv.gen_world(rng, n_steps=max(steps, 10), focus=focus)
    if focus == "flood":
        # one or two vehicles and more than a thousand waiting requests at all kinds of distances
        w = adv.gen_world(rng, n_steps=max(steps, 10), focus="match")
        w["vehicles"] = [dict(v, soc=0.9) for v in w["vehicles"] if "schedule" not in v][: rng.randint(1, 2)] or \
            [{"id": "v1", "lat": world.at(0, 0)[0], "lon": world.at(0, 0)[1], "mech": "leaf_50", "soc": 0.9}]
        w.pop("fleets", None)
        w["requests"] = []
        w["preload"] = [{"id": f"f{k:04d}", "o": world.at(rng.uniform(-3000, 3000), rng.uniform(-3000, 3000)), "d": world.at(0, 0),
                         "dep": 0, "pax": 1, "fleet": None} for k in range(rng.randint(1050, 1200))]
        if rng.random() < 0.7:
            # ... or: a thousand requests on one ring around the first vehicle and, last in every order, one a single cell
            # closer - the margin of the optimum is as small as it can be
            import h3

            v0 = w["vehicles"][0]
            c0 = h3.geo_to_h3(v0["lat"], v0["lon"], 15)
            ring = sorted(h3.hex_ring(c0, 40))
            n = rng.randint(1050, 1200)
            w["preload"] = [{"id": f"f{k:04d}", "o": h3.h3_to_geo(ring[k % len(ring)]), "d": h3.h3_to_geo(c0), "dep": 0, "pax": 1, "fleet": None}
                            for k in range(n)]
            w["preload"].append({"id": "zzz_near", "o": h3.h3_to_geo(sorted(h3.hex_ring(c0, 39))[0]), "d": h3.h3_to_geo(c0), "dep": 0,
                                 "pax": 1, "fleet": None})
            w["vehicles"] = w["vehicles"][:1]
    scen = world.write_world(work / f"mworld{seed}", w)
    rp = world.load(scen, work / "out", suffix=f"m{seed}")
    if w.get("preload"):
        rp = preload_requests(rp, w["preload"])
    counter = [0]
    with out_path.open("w") as sink:
        for k in range(steps):
            dispatcher_records(rp.s, rp.e, sink, f"match{seed}", counter)
            rp = hive_cosim.crank(rp, 1).runner_payload
    return {"records": counter[0], "vehicles": len(w["vehicles"]), "requests": len(w.get("preload", [])) + len(w["requests"]),
            "fleets": bool(w.get("fleets"))}
