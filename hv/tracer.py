"""Projection of hive's concrete state onto the specification's variables, and the hook sink that writes
one ndjson line per atomic action of the step pipeline (action, arguments, delta of the projected state,
reports filed, numeric facts evaluated on the unrounded floats)."""
from __future__ import annotations

import json
import os
from pathlib import Path
from typing import Any, Dict, List, Optional, Tuple

E_SCALE = 1000  # energy: 1e-3 kWh (or 1e-3 gallon)
M_SCALE = 10000  # money: 1e-4 currency units; prices: 1e-4 currency per kWh
D_SCALE = 1000  # distance: metres (km * 1000)

NO = ""  # "no target / no plug"; JSON null is never written


def q(x: float, scale: int) -> int:
    return int(round(float(x) * scale))


def fleets_of(membership) -> List[str]:
    return sorted(membership.memberships)


def route_links(route) -> List[List[Any]]:
    """[link_id, start, end, dist_m, exact travel time in ms, whole-second travel time as the simulator truncates it]"""
    out = []
    for l in route:
        tt_h = (l.distance_km / l.speed_kmph) if l.speed_kmph else 0.0
        out.append([str(l.link_id), l.start, l.end, q(l.distance_km, D_SCALE), int(round(tt_h * 3600_000)), int(tt_h * 3600)])
    return out


def project_vehicle(v, env, with_route: bool = True) -> Dict[str, Any]:
    vs = v.vehicle_state
    act = type(vs).__name__
    tgt, plug, enq, ob, obdest = NO, NO, -1, NO, []
    if hasattr(vs, "station_id"):
        tgt = vs.station_id
    elif hasattr(vs, "base_id"):
        tgt = vs.base_id
    elif hasattr(vs, "request_id"):
        tgt = vs.request_id
    elif act == "ServicingTrip":
        tgt = vs.request.id
        ob = vs.request.id
        obdest = sorted({p.destination for p in vs.request.passengers})
    if hasattr(vs, "charger_id"):
        plug = vs.charger_id
    if hasattr(vs, "enqueue_time"):
        enq = int(vs.enqueue_time)
    route = getattr(vs, "route", None)
    if act == "ServicingPoolingTrip":
        route = vs.route
    rn, rs, re_ = 0, NO, NO
    if route:
        rn, rs, re_ = len(route), route[0].start, route[-1].end
    mech = env.mechatronics.get(v.mechatronics_id)
    etypes = list(v.energy.keys())
    et = etypes[0]
    kind = et.name.lower()
    rec = {
        "id": v.id,
        "act": act,
        "pos": v.position.geoid,
        "lnk": str(v.position.link_id),
        "tgt": tgt,
        "plug": plug,
        "rn": rn,
        "rs": rs,
        "re": re_,
        "enq": enq,
        "idle": int(getattr(vs, "idle_duration", 0)),
        "ob": ob,
        "obdest": obdest,
        "kind": kind,
        "en": q(v.energy[et], E_SCALE),
        "gained": q(v.energy_gained[et], E_SCALE),
        "spent": q(v.energy_expended[et], E_SCALE),
        "bal": q(v.balance, M_SCALE),
        "odo": q(v.distance_traveled_km, D_SCALE),
        "full": bool(mech.is_full(v)) if mech else False,
        "empty": bool(mech.is_empty(v)) if mech else False,
        "avail": bool(v.driver_state.available),
        "human": bool(v.driver_state.schedule_id is not None),
        "sched": v.driver_state.schedule_id or NO,
        "home": v.driver_state.home_base_id or NO,
        "pool": bool(v.driver_state.allows_pooling),
        "fleets": fleets_of(v.membership),
        "mech": v.mechatronics_id,
        "ntypes": len(etypes),
    }
    if with_route:
        rec["rt"] = route_links(route) if route else []
    return rec


def capacity_of(v, env) -> int:
    mech = env.mechatronics.get(v.mechatronics_id)
    cap = getattr(mech, "battery_capacity_kwh", None)
    if cap is None:
        cap = getattr(mech, "tank_capacity_gallons", None)
    if cap is None:
        cap = getattr(mech, "capacity", 0)
    return q(cap, E_SCALE)


def project_station(s) -> Dict[str, Any]:
    pl = []
    for cid in sorted(s.state.keys()):
        cs = s.state[cid]
        pl.append([
            cid,
            {
                "tot": int(cs.total_chargers),
                "av": int(cs.available_chargers),
                "qn": int(cs.enqueued_vehicles),
                "price": q(cs.price_per_kwh, M_SCALE),
                "kind": cs.charger.energy_type.name.lower(),
                "rate": q(cs.charger.rate, 1000),
            },
        ])
    return {
        "id": s.id,
        "pos": s.geoid,
        "lnk": str(s.position.link_id),
        "fleets": fleets_of(s.membership),
        "bal": q(s.balance, M_SCALE),
        "pl": pl,
        "disp": [[k.name.lower(), q(val, E_SCALE)] for k, val in sorted(s.energy_dispensed.items(), key=lambda kv: kv[0].name)],
        "onshift": sorted(s.on_shift_access_chargers),
    }


def project_base(b) -> Dict[str, Any]:
    return {
        "id": b.id,
        "pos": b.geoid,
        "lnk": str(b.position.link_id),
        "fleets": fleets_of(b.membership),
        "tot": int(b.total_stalls),
        "stall": int(b.available_stalls),
        "st": b.station_id or NO,
    }


def project_request(r) -> Dict[str, Any]:
    return {
        "id": r.id,
        "pos": r.origin,
        "lnk": str(r.position.link_id),
        "dpos": r.destination,
        "dlnk": str(r.destination_position.link_id),
        "dep": int(r.departure_time),
        "value": q(r.value, M_SCALE),
        "fleets": fleets_of(r.membership),
        "disp": r.dispatched_vehicle or NO,
        "dtime": int(r.dispatched_vehicle_time) if r.dispatched_vehicle_time is not None else -1,
        "pool": bool(r.allows_pooling),
        "pax": len(r.passengers),
        "paxdest": sorted({p.destination for p in r.passengers}),
    }


def project_next_state(ns) -> Dict[str, Any]:
    """the instructed (or default) next activity, before it is entered"""
    act = type(ns).__name__
    tgt, plug, enq = NO, NO, -1
    if hasattr(ns, "station_id"):
        tgt = ns.station_id
    elif hasattr(ns, "base_id"):
        tgt = ns.base_id
    elif hasattr(ns, "request_id"):
        tgt = ns.request_id
    elif act == "ServicingTrip":
        tgt = ns.request.id
    if hasattr(ns, "charger_id"):
        plug = ns.charger_id
    if hasattr(ns, "enqueue_time"):
        enq = int(ns.enqueue_time)
    route = getattr(ns, "route", None) if act != "ServicingPoolingTrip" else None
    rn, rs, re_ = 0, NO, NO
    if route:
        rn, rs, re_ = len(route), route[0].start, route[-1].end
    return {"act": act, "tgt": tgt, "plug": plug, "rn": rn, "rs": rs, "re": re_, "enq": enq}


def project_instruction(i) -> Dict[str, Any]:
    kind = type(i).__name__.replace("Instruction", "")
    tgt = NO
    for a in ("request_id", "station_id", "base_id", "destination"):
        if hasattr(i, a):
            tgt = str(getattr(i, a))
            break
    return {"v": i.vehicle_id, "kind": kind, "tgt": tgt, "plug": getattr(i, "charger_id", NO) or NO}


def report_json(rep) -> Dict[str, Any]:
    d = {"type": rep.report_type.name.lower()}
    for k, v in rep.report.items():
        if isinstance(v, (int, float, str, bool)) and not isinstance(v, bool):
            d[k] = v
        else:
            d[k] = str(v)
    return d


class Projection:
    """projected state with identity-based change detection (hive entities are immutable)"""

    def __init__(self, sim, env, with_route: bool = True):
        self.with_route = with_route
        self.objs: Dict[str, Dict[str, Any]] = {"veh": {}, "st": {}, "bs": {}, "req": {}}
        self.sim = None
        self.full = self._delta(sim, env)

    def _delta(self, sim, env) -> Dict[str, Any]:
        d: Dict[str, Any] = {"veh": [], "st": [], "bs": [], "req": [], "rmreq": [], "rmveh": [], "rmst": [], "rmbs": []}
        if sim is self.sim:
            return d
        for key, coll, proj in (
            ("veh", sim.vehicles, lambda v: project_vehicle(v, env, self.with_route)),
            ("st", sim.stations, project_station),
            ("bs", sim.bases, project_base),
            ("req", sim.requests, project_request),
        ):
            known = self.objs[key]
            seen = set()
            for k in sorted(coll.keys()):
                o = coll[k]
                seen.add(k)
                if known.get(k) is not o:
                    known[k] = o
                    d[key].append([k, proj(o)])
            for k in sorted(set(known.keys()) - seen):
                del known[k]
                d["rm" + key].append(k)
        self.sim = sim
        return d

    def advance(self, sim, env) -> Dict[str, Any]:
        return self._delta(sim, env)


def index_snapshot(sim) -> Dict[str, Any]:
    import h3

    def m(x):
        return [[k, sorted(v)] for k, v in sorted(x.items())]

    cells = set()
    for coll in (sim.vehicles, sim.requests, sim.stations, sim.bases):
        for e in coll.values():
            cells.add(e.geoid)
    for mp in (sim.v_locations, sim.r_locations, sim.s_locations, sim.b_locations):
        cells.update(mp.keys())
    return {
        # the enclosing search cell of every cell in use (h3 itself is trusted)
        "parent": [[c, h3.h3_to_parent(c, sim.sim_h3_search_resolution)] for c in sorted(cells)],
        "vloc": m(sim.v_locations), "rloc": m(sim.r_locations), "sloc": m(sim.s_locations), "bloc": m(sim.b_locations),
        "vsrch": m(sim.v_search), "rsrch": m(sim.r_search), "ssrch": m(sim.s_search), "bsrch": m(sim.b_search),
    }


class Tracer:
    """hook sink; `lines` receives dicts, `path` (optional) receives ndjson"""

    def __init__(self, path: Optional[Path] = None, *, with_route: bool = True, with_index: bool = False,
                 keep: bool = False, run_id: str = "run"):
        self.path = Path(path) if path else None
        self.f = self.path.open("w") if self.path else None
        self.keep = keep
        self.lines: List[Dict[str, Any]] = []
        self.n = 0
        self.proj: Optional[Projection] = None
        self.pending_reports: List[Dict[str, Any]] = []
        self.with_route = with_route
        self.with_index = with_index
        self.run_id = run_id
        self.step = 0
        self.listeners: List[Any] = []
        # facts for spec/HiveControl.tla (driver policies, charging fleet manager) go to a sibling file
        self.policy = None
        if self.path and os.environ.get("HV_POLICY") == "1":
            from hv.policy import PolicyLog

            self.policy = PolicyLog(self.path.with_suffix(".policy"))
            self.listeners.append(self.policy.listen)

    # -- output ---------------------------------------------------------------------------
    def write(self, line: Dict[str, Any]) -> None:
        self.n += 1
        if self.keep:
            self.lines.append(line)
        if self.f:
            self.f.write(json.dumps(line, separators=(",", ":")) + "\n")
        for l in self.listeners:
            l(line)

    def close(self) -> None:
        if self.f:
            self.f.close()
            self.f = None
        if self.policy:
            self.policy.close()

    def _reports(self) -> List[Dict[str, Any]]:
        r, self.pending_reports = self.pending_reports, []
        return r

    # -- init -----------------------------------------------------------------------------
    def init(self, sim, env, extra: Optional[Dict[str, Any]] = None) -> None:
        import h3

        self.proj = Projection(sim, env, self.with_route)
        d = self.proj.full
        caps = [[v.id, capacity_of(v, env)] for v in sim.get_vehicles()]
        cells = set()
        for key in ("veh", "st", "bs", "req"):
            for _, rec in d[key]:
                cells.add(rec["pos"])
        line = {
            "ev": "init",
            "run": self.run_id,
            "time": int(sim.sim_time),
            "dt": int(sim.sim_timestep_duration_seconds),
            "dt_cfg": int(env.config.sim.timestep_duration_seconds),
            "cancel": int(env.config.sim.request_cancel_time_seconds),
            "searchres": int(sim.sim_h3_search_resolution),
            "fleetids": sorted(env.fleet_ids),
            "valid_dispatch": sorted(env.config.dispatcher.valid_dispatch_states),
            "caps": caps,
            "vrank": [[vid, i] for i, vid in enumerate(sorted(sim.vehicles.keys()))],
            "d": d,
        }
        if extra:
            line.update(extra)
        if self.with_index:
            line["idx"] = index_snapshot(sim)
        self.write(line)

    # -- sink -----------------------------------------------------------------------------
    def __call__(self, event: str, **f: Any) -> None:
        h = getattr(self, "on_" + event, None)
        if h is not None:
            h(**f)

    def on_report(self, report) -> None:
        self.pending_reports.append(report_json(report))

    def on_step_begin(self, payload) -> None:
        if self.proj is None:
            self.init(payload.s, payload.e)
        d = self.proj.advance(payload.s, payload.e)
        self.write({"ev": "begin", "step": self.step, "time": int(payload.s.sim_time), "d": d, "rep": self._reports()})

    def on_pre_step(self, fn, before, after, env) -> None:
        d = self.proj.advance(after, env)
        self.write({"ev": "pre", "fn": type(fn).__name__, "time": int(after.sim_time), "d": d, "rep": self._reports()})

    def on_drivers(self, before, after, env) -> None:
        d = self.proj.advance(after, env)
        self.write({"ev": "drivers", "time": int(after.sim_time), "d": d, "rep": self._reports()})

    def on_instruction_stacks(self, stacks, final, generators, sim, env) -> None:
        if self.policy:
            self.policy.on_stacks(stacks, generators, sim, env)
        st = [[vid, [project_instruction(i) for i in stacks[vid]]] for vid in sorted(stacks.keys())]
        # what each vehicle's own driver wants in this step (its generate_instruction is a pure function of the state the
        # generators saw): "the vehicle's own driver has the final word"
        drv = []
        for v in sim.get_vehicles():
            try:
                d_i = v.driver_state.generate_instruction(sim, env, None)
            except Exception:
                d_i = None
            if d_i is not None:
                drv.append(project_instruction(d_i))
        self.write({
            "ev": "stacks",
            "drv": drv,
            "gens": list(generators),
            "stacks": st,
            "final": [project_instruction(i) for i in final],
            "d": self.proj.advance(sim, env),
            "rep": self._reports(),
        })

    def on_instruction(self, instruction, result, error, before, after, env) -> None:
        pi = project_instruction(instruction) if instruction is not None else {"v": NO, "kind": NO, "tgt": NO, "plug": NO}
        if result is None:
            # rejected by Instruction.apply_instruction (phase 1): nothing was attempted
            self.write({"ev": "instr", "v": pi["v"], "i": pi, "out": "invalid",
                        "nx": {"act": NO, "tgt": NO, "plug": NO, "rn": 0, "rs": NO, "re": NO, "enq": -1},
                        "pact": NO, "d": self.proj.advance(before, env), "rep": self._reports()})
            return
        out = "error" if error is not None else ("none" if after is None else "applied")
        d = self.proj.advance(after if after is not None else before, env)
        self.write({
            "ev": "instr",
            "v": result.next_state.vehicle_id,
            "i": pi,
            "out": out,
            "nx": project_next_state(result.next_state),
            "pact": type(result.prev_state).__name__,
            "d": d,
            "rep": self._reports(),
        })

    def on_vehicle_update(self, vehicle_id, error, before, after, env) -> None:
        out = "error" if error is not None else ("none" if after is None else "ok")
        sim1 = after if (after is not None and error is None) else before
        v0 = before.vehicles.get(vehicle_id)
        v1 = sim1.vehicles.get(vehicle_id)
        d = self.proj.advance(sim1, env)
        line = {"ev": "update", "v": vehicle_id, "out": out, "d": d, "rep": self._reports()}
        if v0 is not None and v1 is not None:
            line["num"] = numeric_facts(v0, v1, before, sim1, env)
        self.write(line)

    def on_tick(self, instructed, before, after, env) -> None:
        d = self.proj.advance(after, env)
        self.write({"ev": "tick", "time": int(after.sim_time), "prev": int(before.sim_time), "d": d, "rep": self._reports()})

    def on_step_end(self, payload) -> None:
        d = self.proj.advance(payload.s, payload.e)
        line = {"ev": "end", "step": self.step, "time": int(payload.s.sim_time), "d": d, "rep": self._reports()}
        if self.with_index:
            line["idx"] = index_snapshot(payload.s)
        self.write(line)
        self.step += 1


def numeric_facts(v0, v1, sim0, sim1, env) -> Dict[str, Any]:
    """exact comparisons on the unrounded floats, for the strict clauses (see DESIGN 3.3)"""
    et = list(v1.energy.keys())[0]
    dt = sim0.sim_timestep_duration_seconds
    d_spent = v1.energy_expended[et] - v0.energy_expended[et]
    d_gain = v1.energy_gained[et] - v0.energy_gained[et]
    d_en = v1.energy[et] - v0.energy[et]
    d_odo = v1.distance_traveled_km - v0.distance_traveled_km
    facts = {
        "moved": bool(v1.position.geoid != v0.position.geoid or d_odo > 0),
        "spent_pos": bool(d_spent > 0),
        "spent_neg": bool(d_spent < 0),
        "gain_pos": bool(d_gain > 0),
        "gain_neg": bool(d_gain < 0),
        "en_down": bool(d_en < 0),
        "en_up": bool(d_en > 0),
        "odo_up": bool(d_odo > 0),
        "was_empty": bool(v0.energy[et] <= 0),
        "acct_ok": bool(abs(d_en - (d_gain - d_spent)) <= 1e-9 * max(1.0, abs(v1.energy[et]))),
        "gain_le_plug": True,
        "plugmax": -1,
    }
    # the travel times of the route's links at the speeds the road network reports NOW (what traverse() must use), when
    # they differ from the speeds stored in the route (a co-simulation user swapped in a network with other speeds)
    route0 = getattr(v0.vehicle_state, "route", None)
    if route0:
        now, differs = [], False
        for l in route0:
            gt = sim0.road_network.link_from_link_id(l.link_id)
            sp = gt.speed_kmph if gt is not None and gt.speed_kmph else l.speed_kmph
            differs = differs or sp != l.speed_kmph
            tt_h = (l.distance_km / sp) if sp else 0.0
            now.append([int(round(tt_h * 3600_000)), int(tt_h * 3600)])
        if differs:
            facts["rt_now"] = now
        # however the route's links are measured: the straight-line displacement of the step cannot exceed what the
        # fastest of its links allows in the step (2 % + 5 m for the cell grid)
        try:
            import h3 as _h3

            vmax = 0.0
            for l in route0:
                gt = sim0.road_network.link_from_link_id(l.link_id)
                vmax = max(vmax, float(gt.speed_kmph) if gt is not None and gt.speed_kmph else float(l.speed_kmph))
            geo_m = _h3.point_dist(_h3.h3_to_geo(v0.geoid), _h3.h3_to_geo(v1.geoid), unit="m")
            # "up to the simulator's whole-second rounding of each link's travel time": one second per link entered
            route1 = getattr(v1.vehicle_state, "route", None) or ()
            entered = min(len(route0), max(1, len(route0) - len(route1) + 1))
            facts["geo_ok"] = bool(geo_m <= vmax / 3.6 * (dt + entered) * 1.02 + 5.0)
        except Exception:
            pass
    # a powertrain DEFINED with an idle consumption of zero (denver_rl_toy's toy_car) has nothing to expend when idling
    mech = env.mechatronics.get(v1.mechatronics_id)
    rate = getattr(mech, "idle_kwh_per_hour", getattr(mech, "idle_gallons_per_hour", None))
    facts["idle_rate_zero"] = bool(rate is not None and rate == 0)
    act1 = type(v1.vehicle_state).__name__
    act0 = type(v0.vehicle_state).__name__
    # the plug that delivered energy in this update (the activity after a possible default transition)
    plug = getattr(v1.vehicle_state, "charger_id", None) if act1 in ("ChargingStation", "ChargingBase") else None
    if plug is None and d_gain != 0 and act0 in ("ChargingStation", "ChargingBase"):
        plug = getattr(v0.vehicle_state, "charger_id", None)
    if plug is not None:
        st_id = getattr(v1.vehicle_state, "station_id", None)
        if st_id is None:
            b = sim1.bases.get(getattr(v1.vehicle_state, "base_id", None) or getattr(v0.vehicle_state, "base_id", ""))
            st_id = b.station_id if b is not None else None
        if st_id is None:
            st_id = getattr(v0.vehicle_state, "station_id", None)
        st = sim0.stations.get(st_id) if st_id is not None else None
        cs = st.state.get(plug) if st is not None else None
        if cs is not None:
            rate = cs.charger.rate
            per_s = rate / 3600.0 if cs.charger.energy_type.name.lower() == "electric" else rate
            cap = per_s * dt
            facts["plugmax"] = q(cap, E_SCALE)
            facts["gain_le_plug"] = bool(d_gain <= cap * (1 + 1e-9) + 1e-12)
        st1 = sim1.stations.get(st_id) if st_id is not None else None
        if st is not None and st1 is not None:
            # both sides of the transfer compared on the unrounded floats (C05): what the vehicle gained is what the
            # station's meter for that energy type moved by, and what the vehicle paid is what the station received
            d_disp = st1.energy_dispensed.get(et, 0.0) - st.energy_dispensed.get(et, 0.0)
            d_paid = v0.balance - v1.balance
            d_recv = st1.balance - st.balance
            facts["disp_ok"] = bool(abs(d_disp - d_gain) <= 1e-9 * max(1.0, abs(d_gain)))
            facts["pay_ok"] = bool(abs(d_recv - d_paid) <= 1e-9 * max(1.0, abs(d_paid)))
    return facts
