------------------------------ MODULE HiveProps ------------------------------
(***************************************************************************)
(* The listed properties of the core state machine, written once, over the *)
(* state record S = [veh, st, bs, req, now] of HiveCore.                   *)
(*                                                                         *)
(* Every clause is an operator that returns the SET OF ITS VIOLATIONS as   *)
(* tuples <<property, clause, signature, witness>> (empty set = clause     *)
(* holds), so that the bounded model (invariant: set is empty) and the     *)
(* trace monitor (accumulate the sets over an observed run) use the same   *)
(* text and a verdict always names the clause and the failing site.        *)
(* State clauses take S; step clauses take the state before (S), after (T) *)
(* and what the step was.                                                  *)
(***************************************************************************)
EXTENDS HiveCore

V(p, c, sig, w) == <<p, c, sig, w>>

ChargingAt(S, s, p) ==
  {v \in DOMAIN S.veh :
     \/ S.veh[v].act = "ChargingStation" /\ S.veh[v].tgt = s /\ S.veh[v].plug = p
     \/ S.veh[v].act = "ChargingBase" /\ BaseStation(S, S.veh[v].tgt) = s /\ S.veh[v].plug = p}
QueueingAt(S, s, p) ==
  {v \in DOMAIN S.veh : S.veh[v].act = "ChargeQueueing" /\ S.veh[v].tgt = s /\ S.veh[v].plug = p}
ParkedAt(S, b) ==
  {v \in DOMAIN S.veh : S.veh[v].act \in {"ReserveBase", "ChargingBase"} /\ S.veh[v].tgt = b}

-----------------------------------------------------------------------------
(* C02 - charger, queue and stall counts match the vehicles using them *)
C02_State(S) ==
  {V("C02", "plugs_bounded", "station", s) : s \in {s \in DOMAIN S.st :
      \E p \in DOMAIN S.st[s].pl : ~(0 <= S.st[s].pl[p].av /\ S.st[s].pl[p].av <= S.st[s].pl[p].tot)}}
  \cup
  {V("C02", "plugs_match_chargers", "station", s) : s \in {s \in DOMAIN S.st :
      \E p \in DOMAIN S.st[s].pl : S.st[s].pl[p].tot - S.st[s].pl[p].av # Cardinality(ChargingAt(S, s, p))}}
  \cup
  {V("C02", "queue_matches", "station", s) : s \in {s \in DOMAIN S.st :
      \E p \in DOMAIN S.st[s].pl : S.st[s].pl[p].qn # Cardinality(QueueingAt(S, s, p))}}
  \cup
  \* a vehicle charging / queueing on a plug type that is not installed has no counter at all
  {V("C02", "queue_matches", "plug_not_installed", v) : v \in {v \in DOMAIN S.veh :
      /\ S.veh[v].act = "ChargeQueueing" /\ HasSt(S, S.veh[v].tgt)
      /\ ~Installed(S, S.veh[v].tgt, S.veh[v].plug)}}
  \cup
  {V("C02", "plugs_match_chargers", "plug_not_installed", v) : v \in {v \in DOMAIN S.veh :
      \/ S.veh[v].act = "ChargingStation" /\ ~Installed(S, S.veh[v].tgt, S.veh[v].plug)
      \/ S.veh[v].act = "ChargingBase" /\ ~Installed(S, BaseStation(S, S.veh[v].tgt), S.veh[v].plug)}}
  \cup
  {V("C02", "stalls_bounded", "base", b) : b \in {b \in DOMAIN S.bs :
      ~(0 <= S.bs[b].stall /\ S.bs[b].stall <= S.bs[b].tot)}}
  \cup
  {V("C02", "stalls_match", "base", b) : b \in {b \in DOMAIN S.bs :
      S.bs[b].tot - S.bs[b].stall # Cardinality(ParkedAt(S, b))}}

-----------------------------------------------------------------------------
(* C07 - a vehicle's activity is consistent with where it is *)
C07_State(S) ==
  {V("C07", "at_station", S.veh[v].act, v) : v \in {v \in DOMAIN S.veh :
      /\ S.veh[v].act \in {"ChargingStation", "ChargeQueueing"} /\ HasSt(S, S.veh[v].tgt)
      /\ S.veh[v].pos # S.st[S.veh[v].tgt].pos}}
  \cup
  {V("C07", "at_base", S.veh[v].act, v) : v \in {v \in DOMAIN S.veh :
      /\ S.veh[v].act \in {"ReserveBase", "ChargingBase"} /\ HasBs(S, S.veh[v].tgt)
      /\ S.veh[v].pos # S.bs[S.veh[v].tgt].pos}}
  \cup
  {V("C07", "route_starts_here", S.veh[v].act, v) : v \in {v \in DOMAIN S.veh :
      /\ S.veh[v].act \in Moving /\ S.veh[v].rn > 0 /\ S.veh[v].rs # S.veh[v].pos}}
  \cup
  {V("C07", "route_ends_at_target", S.veh[v].act, v) : v \in {v \in DOMAIN S.veh :
      LET r == S.veh[v] IN
      \/ r.act = "DispatchStation" /\ HasSt(S, r.tgt)
           /\ (IF r.rn > 0 THEN r.re # S.st[r.tgt].pos ELSE r.pos # S.st[r.tgt].pos)
      \/ r.act = "DispatchBase" /\ HasBs(S, r.tgt)
           /\ (IF r.rn > 0 THEN r.re # S.bs[r.tgt].pos ELSE r.pos # S.bs[r.tgt].pos)
      \/ r.act = "DispatchTrip" /\ HasReq(S, r.tgt)
           /\ (IF r.rn > 0 THEN r.re # S.req[r.tgt].pos ELSE r.pos # S.req[r.tgt].pos)
      \/ r.act = "ServicingTrip"
           /\ (IF r.rn > 0 THEN r.re \notin r.obdest ELSE r.pos \notin r.obdest)}}

-----------------------------------------------------------------------------
(* C10 - fleet membership is enforced when an interaction STARTS: evaluated on every step in which a     *)
(* vehicle's (activity, target) changes, against the memberships at that moment                          *)
TargetFleets(S, a, t) ==
  IF a \in StationActs /\ HasSt(S, t) THEN S.st[t].fleets
  ELSE IF a \in BaseActs /\ HasBs(S, t) THEN S.bs[t].fleets
  ELSE IF a \in TripActs /\ HasReq(S, t) THEN S.req[t].fleets
  ELSE {}

C10_Step(S, T) ==
  {V("C10", "access_on_start", T.veh[v].act, v) : v \in {v \in DOMAIN T.veh \cap DOMAIN S.veh :
      /\ <<T.veh[v].act, T.veh[v].tgt>> # <<S.veh[v].act, S.veh[v].tgt>>
      /\ T.veh[v].tgt # None
      \* the request of a ServicingTrip left `req` at pickup: its membership is read from the state before
      /\ ~Access(IF T.veh[v].act = "ServicingTrip" THEN TargetFleets(S, "DispatchTrip", T.veh[v].tgt)
                 ELSE TargetFleets(T, T.veh[v].act, T.veh[v].tgt), T.veh[v].fleets)}}

C10_State(S) ==
  {V("C10", "access", S.veh[v].act, v) : v \in {v \in DOMAIN S.veh :
      S.veh[v].tgt # None /\ ~Access(TargetFleets(S, S.veh[v].act, S.veh[v].tgt), S.veh[v].fleets)}}

-----------------------------------------------------------------------------
(* C17 - a request's assigned vehicle is really on its way to it *)
C17_State(S) ==
  {V("C17", "assigned_vehicle_travelling", "request", r) : r \in {r \in DOMAIN S.req :
      /\ S.req[r].disp # None
      /\ ~(/\ S.req[r].disp \in DOMAIN S.veh
           /\ S.veh[S.req[r].disp].act = "DispatchTrip"
           /\ S.veh[S.req[r].disp].tgt = r)}}

\* under the built-in dispatcher only
C17_Unique(S) ==
  {V("C17", "one_vehicle_per_request", "request", r) : r \in {r \in DOMAIN S.req :
      Cardinality({v \in DOMAIN S.veh : S.veh[v].act = "DispatchTrip" /\ S.veh[v].tgt = r}) > 1}}

-----------------------------------------------------------------------------
(* C18 - charging queues are first-come first-served.  Evaluated on a vehicle update of v: a grant made  *)
(* by the simulator's default transition out of the queue.  VLess is the id order (Python str order).    *)
Grant(S, T, v) ==
  /\ S.veh[v].act = "ChargeQueueing" /\ T.veh[v].act = "ChargingStation"
  /\ T.veh[v].tgt = S.veh[v].tgt /\ T.veh[v].plug = S.veh[v].plug
StillWaiting(S, T, w, s, p) ==
  /\ S.veh[w].act = "ChargeQueueing" /\ S.veh[w].tgt = s /\ S.veh[w].plug = p
  /\ T.veh[w].act = "ChargeQueueing" /\ T.veh[w].tgt = s /\ T.veh[w].plug = p

C18_Step(S, T, v, VLess(_, _)) ==
  IF ~Grant(S, T, v) THEN {}
  ELSE LET s == S.veh[v].tgt  p == S.veh[v].plug  e == S.veh[v].enq IN
    {V("C18", "fifo", IF S.veh[w].full THEN "earlier_waiter_full" ELSE "earlier_waiter", w) :
        w \in {w \in DOMAIN S.veh \ {v} : StillWaiting(S, T, w, s, p) /\ S.veh[w].enq < e}}
    \cup
    {V("C18", "tie_by_id", IF S.veh[w].full THEN "earlier_waiter_full" ELSE "earlier_waiter", w) :
        w \in {w \in DOMAIN S.veh \ {v} : StillWaiting(S, T, w, s, p) /\ S.veh[w].enq = e /\ VLess(w, v)}}

-----------------------------------------------------------------------------
(* C03 (state/step parts that need no history) *)
\* no instruction can divert a vehicle that is carrying passengers
C03_NoDivert(S, T, v) ==
  IF /\ S.veh[v].act = "ServicingTrip" /\ S.veh[v].rn > 0
     /\ <<T.veh[v].act, T.veh[v].tgt>> # <<S.veh[v].act, S.veh[v].tgt>>
  THEN {V("C03", "no_divert", T.veh[v].act, v)} ELSE {}

\* a request is on board at most one vehicle
C03_OneCarrier(S) ==
  {V("C03", "one_carrier", "request", r) : r \in {r \in {S.veh[v].ob : v \in DOMAIN S.veh} \ {None} :
      Cardinality({v \in DOMAIN S.veh : S.veh[v].ob = r}) > 1 \/ r \in DOMAIN S.req}}

-----------------------------------------------------------------------------
(* C09 - a rejected instruction changes nothing (discrete and numeric projection alike) *)
SameEntities(S, T) == S.veh = T.veh /\ S.st = T.st /\ S.bs = T.bs /\ S.req = T.req

C09_Rejected(S, T, v, out) ==
  IF out # "applied" /\ ~SameEntities(S, T)
  THEN {V("C09", "rejected_changes_nothing", out, v)} ELSE {}

\* an applied instruction puts the vehicle into the instructed activity (or, for a station dispatch of a
\* vehicle already at the station, directly on the plug)
C09_Applied(S, T, v, nx, out) ==
  IF out = "applied"
     /\ ~(\/ (T.veh[v].act = nx.act /\ T.veh[v].tgt = nx.tgt /\ T.veh[v].plug = nx.plug)
          \/ (nx.act = "DispatchStation" /\ T.veh[v].act = "ChargingStation"
                /\ T.veh[v].tgt = nx.tgt /\ T.veh[v].plug = nx.plug))
  THEN {V("C09", "applied_enters_activity", nx.act, v)} ELSE {}

=============================================================================
