------------------------------ MODULE HiveProps ------------------------------
(***************************************************************************)
(* The listed properties of the core state machine, written once, over the *)
(* state record S = [veh, st, bs, req, now] of HiveCore.                   *)
(*                                                                         *)
(* Every clause is an operator that returns the SET OF ITS VIOLATIONS as   *)
(* tuples <<property, clause, signature, witness>> (empty set = clause     *)
(* holds), so that the bounded model (invariant: set is empty) and the     *)
(* trace monitor (accumulate the sets over an observed run) use the same   *)
(* text and a verdict always names the clause and the failing site.        *)
(* State clauses take S; step clauses take the state before (S), after (T) *)
(* and what the step was.                                                  *)
(***************************************************************************)
EXTENDS HiveCore

V(p, c, sig, w) == <<p, c, sig, w>>

ChargingAt(S, s, p) ==
  {v \in DOMAIN S.veh :
     \/ S.veh[v].act = "ChargingStation" /\ S.veh[v].tgt = s /\ S.veh[v].plug = p
     \/ S.veh[v].act = "ChargingBase" /\ BaseStation(S, S.veh[v].tgt) = s /\ S.veh[v].plug = p}
QueueingAt(S, s, p) ==
  {v \in DOMAIN S.veh : S.veh[v].act = "ChargeQueueing" /\ S.veh[v].tgt = s /\ S.veh[v].plug = p}
ParkedAt(S, b) ==
  {v \in DOMAIN S.veh : S.veh[v].act \in {"ReserveBase", "ChargingBase"} /\ S.veh[v].tgt = b}

-----------------------------------------------------------------------------
(* C02 - charger, queue and stall counts match the vehicles using them *)
C02_State(S) ==
  {V("C02", "plugs_bounded", "station", s) : s \in {s \in DOMAIN S.st :
      \E p \in DOMAIN S.st[s].pl : ~(0 <= S.st[s].pl[p].av /\ S.st[s].pl[p].av <= S.st[s].pl[p].tot)}}
  \cup
  {V("C02", "plugs_match_chargers", "station", s) : s \in {s \in DOMAIN S.st :
      \E p \in DOMAIN S.st[s].pl : S.st[s].pl[p].tot - S.st[s].pl[p].av # Cardinality(ChargingAt(S, s, p))}}
  \cup
  {V("C02", "queue_matches", "station", s) : s \in {s \in DOMAIN S.st :
      \E p \in DOMAIN S.st[s].pl : S.st[s].pl[p].qn # Cardinality(QueueingAt(S, s, p))}}
  \cup
  \* a vehicle charging / queueing on a plug type that is not installed has no counter at all
  {V("C02", "queue_matches", "plug_not_installed", v) : v \in {v \in DOMAIN S.veh :
      /\ S.veh[v].act = "ChargeQueueing" /\ HasSt(S, S.veh[v].tgt)
      /\ ~Installed(S, S.veh[v].tgt, S.veh[v].plug)}}
  \cup
  {V("C02", "plugs_match_chargers", "plug_not_installed", v) : v \in {v \in DOMAIN S.veh :
      \/ S.veh[v].act = "ChargingStation" /\ ~Installed(S, S.veh[v].tgt, S.veh[v].plug)
      \/ S.veh[v].act = "ChargingBase" /\ ~Installed(S, BaseStation(S, S.veh[v].tgt), S.veh[v].plug)}}
  \cup
  {V("C02", "stalls_bounded", "base", b) : b \in {b \in DOMAIN S.bs :
      ~(0 <= S.bs[b].stall /\ S.bs[b].stall <= S.bs[b].tot)}}
  \cup
  {V("C02", "stalls_match", "base", b) : b \in {b \in DOMAIN S.bs :
      S.bs[b].tot - S.bs[b].stall # Cardinality(ParkedAt(S, b))}}

-----------------------------------------------------------------------------
(* C07 - a vehicle's activity is consistent with where it is *)
C07_State(S) ==
  {V("C07", "at_station", S.veh[v].act, v) : v \in {v \in DOMAIN S.veh :
      /\ S.veh[v].act \in {"ChargingStation", "ChargeQueueing"} /\ HasSt(S, S.veh[v].tgt)
      /\ S.veh[v].pos # S.st[S.veh[v].tgt].pos}}
  \cup
  {V("C07", "at_base", S.veh[v].act, v) : v \in {v \in DOMAIN S.veh :
      /\ S.veh[v].act \in {"ReserveBase", "ChargingBase"} /\ HasBs(S, S.veh[v].tgt)
      /\ S.veh[v].pos # S.bs[S.veh[v].tgt].pos}}
  \cup
  {V("C07", "route_starts_here", S.veh[v].act, v) : v \in {v \in DOMAIN S.veh :
      /\ S.veh[v].act \in Moving /\ S.veh[v].rn > 0 /\ S.veh[v].rs # S.veh[v].pos}}
  \cup
  {V("C07", "route_ends_at_target", S.veh[v].act, v) : v \in {v \in DOMAIN S.veh :
      LET r == S.veh[v] IN
      \/ r.act = "DispatchStation" /\ HasSt(S, r.tgt)
           /\ (IF r.rn > 0 THEN r.re # S.st[r.tgt].pos ELSE r.pos # S.st[r.tgt].pos)
      \/ r.act = "DispatchBase" /\ HasBs(S, r.tgt)
           /\ (IF r.rn > 0 THEN r.re # S.bs[r.tgt].pos ELSE r.pos # S.bs[r.tgt].pos)
      \/ r.act = "DispatchTrip" /\ HasReq(S, r.tgt)
           /\ (IF r.rn > 0 THEN r.re # S.req[r.tgt].pos ELSE r.pos # S.req[r.tgt].pos)
      \/ r.act = "ServicingTrip"
           /\ (IF r.rn > 0 THEN r.re \notin r.obdest ELSE r.pos \notin r.obdest)}}


\* "a trip is started only at the request's origin and ended only at its destination": one action (an instruction or a
\* vehicle update) of vehicle v, B before, T after.  A vehicle that runs dry on the way strands - its trip is not ended -
\* which only the vehicle's own update can do (isUpdate).
C07_Step(B, T, v, isUpdate) ==
  IF v \notin DOMAIN B.veh \/ v \notin DOMAIN T.veh THEN {} ELSE
  LET b == B.veh[v]  t == T.veh[v] IN
     (IF b.act = "ServicingTrip" /\ t.act # "ServicingTrip" /\ b.ob # None
         /\ ~(isUpdate /\ t.act = "OutOfService")
         /\ t.pos \notin b.obdest
      THEN {V("C07", "trip_ends_at_destination", t.act, v)} ELSE {})
  \cup (IF t.act = "ServicingTrip" /\ b.act # "ServicingTrip"
         /\ ~(b.act = "DispatchTrip" /\ HasReq(B, b.tgt) /\ b.pos = B.req[b.tgt].pos)
      THEN {V("C07", "trip_starts_at_origin", b.act, v)} ELSE {})

-----------------------------------------------------------------------------
(* C10 - fleet membership is enforced when an interaction STARTS: evaluated on every step in which a     *)
(* vehicle's (activity, target) changes, against the memberships at that moment                          *)
TargetFleets(S, a, t) ==
  IF a \in StationActs /\ HasSt(S, t) THEN S.st[t].fleets
  ELSE IF a \in BaseActs /\ HasBs(S, t) THEN S.bs[t].fleets
  ELSE IF a \in TripActs /\ HasReq(S, t) THEN S.req[t].fleets
  ELSE {}

C10_Step(S, T) ==
  {V("C10", "access_on_start", T.veh[v].act, v) : v \in {v \in DOMAIN T.veh \cap DOMAIN S.veh :
      /\ <<T.veh[v].act, T.veh[v].tgt>> # <<S.veh[v].act, S.veh[v].tgt>>
      /\ T.veh[v].tgt # None
      \* the request of a ServicingTrip left `req` at pickup: its membership is read from the state before
      /\ ~Access(IF T.veh[v].act = "ServicingTrip" THEN TargetFleets(S, "DispatchTrip", T.veh[v].tgt)
                 ELSE TargetFleets(T, T.veh[v].act, T.veh[v].tgt), T.veh[v].fleets)}}

C10_State(S) ==
  {V("C10", "access", S.veh[v].act, v) : v \in {v \in DOMAIN S.veh :
      S.veh[v].tgt # None /\ ~Access(TargetFleets(S, S.veh[v].act, S.veh[v].tgt), S.veh[v].fleets)}}

-----------------------------------------------------------------------------
(* C17 - a request's assigned vehicle is really on its way to it *)
C17_State(S) ==
  {V("C17", "assigned_vehicle_travelling", "request", r) : r \in {r \in DOMAIN S.req :
      /\ S.req[r].disp # None
      /\ ~(/\ S.req[r].disp \in DOMAIN S.veh
           /\ S.veh[S.req[r].disp].act = "DispatchTrip"
           /\ S.veh[S.req[r].disp].tgt = r)}}

\* under the built-in dispatcher only
C17_Unique(S) ==
  {V("C17", "one_vehicle_per_request", "request", r) : r \in {r \in DOMAIN S.req :
      Cardinality({v \in DOMAIN S.veh : S.veh[v].act = "DispatchTrip" /\ S.veh[v].tgt = r}) > 1}}

-----------------------------------------------------------------------------
(* C18 - charging queues are first-come first-served.  Evaluated on a vehicle update of v: a grant made  *)
(* by the simulator's default transition out of the queue.  VLess is the id order (Python str order).    *)
\* ... on a plug of the station it was queueing at: at the station itself, or through a base that station serves
Grant(S, T, v) ==
  /\ S.veh[v].act = "ChargeQueueing" /\ T.veh[v].plug = S.veh[v].plug
  /\ \/ (T.veh[v].act = "ChargingStation" /\ T.veh[v].tgt = S.veh[v].tgt)
     \/ (T.veh[v].act = "ChargingBase" /\ BaseStation(T, T.veh[v].tgt) = S.veh[v].tgt)
StillWaiting(S, T, w, s, p) ==
  /\ S.veh[w].act = "ChargeQueueing" /\ S.veh[w].tgt = s /\ S.veh[w].plug = p
  /\ T.veh[w].act = "ChargeQueueing" /\ T.veh[w].tgt = s /\ T.veh[w].plug = p

\* `how`: "" for the queue's own grant (the default transition in the vehicle's update), "by_instruction/" when an
\* instruction took the vehicle out of the queue onto the plug - the statement covers both
C18_Step(S, T, v, VLess(_, _), how) ==
  IF ~Grant(S, T, v) THEN {}
  ELSE LET s == S.veh[v].tgt  p == S.veh[v].plug  e == S.veh[v].enq IN
    {V("C18", "fifo", how \o (IF S.veh[w].full THEN "earlier_waiter_full" ELSE "earlier_waiter"), w) :
        w \in {w \in DOMAIN S.veh \ {v} : StillWaiting(S, T, w, s, p) /\ S.veh[w].enq < e}}
    \cup
    {V("C18", "tie_by_id", how \o (IF S.veh[w].full THEN "earlier_waiter_full" ELSE "earlier_waiter"), w) :
        w \in {w \in DOMAIN S.veh \ {v} : StillWaiting(S, T, w, s, p) /\ S.veh[w].enq = e /\ VLess(w, v)}}


\* "in order of arrival in the queue": the time a waiting vehicle is ranked by IS the time it joined this queue - stamped
\* with the clock when it joins (also when it comes from another station's queue), never changed while it waits
C18_Join(S, T, v) ==
  IF v \notin DOMAIN S.veh \/ v \notin DOMAIN T.veh \/ T.veh[v].act # "ChargeQueueing" THEN {}
  ELSE IF S.veh[v].act = "ChargeQueueing" /\ S.veh[v].tgt = T.veh[v].tgt /\ S.veh[v].plug = T.veh[v].plug
       THEN (IF T.veh[v].enq # S.veh[v].enq THEN {V("C18", "arrival_time", "changed_while_waiting", v)} ELSE {})
       ELSE (IF T.veh[v].enq # S.now THEN {V("C18", "arrival_time", "not_the_time_of_joining", v)} ELSE {})

\* ... and over a whole time step, however many actions it took (an instruction that takes the vehicle out of the queue, an
\* update that plugs it in): Q is the queue at the BEGINNING of the step (vehicle -> [s, p, enq]), T the state at its end.
\* A vehicle that was waiting at the beginning and is charging on that plug at the end has not passed a vehicle that was
\* waiting before it and is still waiting, never having left the queue.
C18_Boundary(Q, T, VLess(_, _)) ==
  LET granted == {v \in DOMAIN Q \cap DOMAIN T.veh :
                    /\ T.veh[v].plug = Q[v].p
                    /\ \/ (T.veh[v].act = "ChargingStation" /\ T.veh[v].tgt = Q[v].s)
                       \/ (T.veh[v].act = "ChargingBase" /\ BaseStation(T, T.veh[v].tgt) = Q[v].s)}
      still(w, v) == /\ w \in DOMAIN T.veh /\ w # v /\ Q[w].s = Q[v].s /\ Q[w].p = Q[v].p
                     /\ T.veh[w].act = "ChargeQueueing" /\ T.veh[w].tgt = Q[w].s /\ T.veh[w].plug = Q[w].p /\ T.veh[w].enq = Q[w].enq
  IN UNION {
       {V("C18", "fifo", "over_the_step/earlier_waiter", w) : w \in {w \in DOMAIN Q : still(w, v) /\ Q[w].enq < Q[v].enq}}
       \cup {V("C18", "tie_by_id", "over_the_step/earlier_waiter", w) : w \in {w \in DOMAIN Q : still(w, v) /\ Q[w].enq = Q[v].enq /\ VLess(w, v)}}
       : v \in granted}

-----------------------------------------------------------------------------
(* C03 (state/step parts that need no history) *)
\* no instruction can divert a vehicle that is carrying passengers
C03_NoDivert(S, T, v) ==
  IF /\ S.veh[v].act = "ServicingTrip" /\ S.veh[v].rn > 0
     /\ <<T.veh[v].act, T.veh[v].tgt>> # <<S.veh[v].act, S.veh[v].tgt>>
  THEN {V("C03", "no_divert", T.veh[v].act, v)} ELSE {}

\* a request is on board at most one vehicle
C03_OneCarrier(S) ==
  {V("C03", "one_carrier", "request", r) : r \in {r \in {S.veh[v].ob : v \in DOMAIN S.veh} \ {None} :
      Cardinality({v \in DOMAIN S.veh : S.veh[v].ob = r}) > 1 \/ r \in DOMAIN S.req}}

-----------------------------------------------------------------------------
(* C09 - a rejected instruction changes nothing (discrete and numeric projection alike) *)
SameEntities(S, T) == S.veh = T.veh /\ S.st = T.st /\ S.bs = T.bs /\ S.req = T.req

C09_Rejected(S, T, v, out) ==
  IF out # "applied" /\ ~SameEntities(S, T)
  THEN {V("C09", "rejected_changes_nothing", out, v)} ELSE {}

\* an applied instruction puts the vehicle into the instructed activity (or, for a station dispatch of a
\* vehicle already at the station, directly on the plug)
C09_Applied(S, T, v, nx, out) ==
  IF out = "applied"
     /\ ~(\/ (T.veh[v].act = nx.act /\ T.veh[v].tgt = nx.tgt /\ T.veh[v].plug = nx.plug)
          \/ (nx.act = "DispatchStation" /\ T.veh[v].act = "ChargingStation"
                /\ T.veh[v].tgt = nx.tgt /\ T.veh[v].plug = nx.plug))
  THEN {V("C09", "applied_enters_activity", nx.act, v)} ELSE {}

\* ... "with all of its side effects": what a vehicle holds by virtue of its activity - a plug, a place in a
\* queue, a stall, the assignment of a request - exists, was taken by the instruction that put it there and what the
\* previous activity held was given back.  Deliberately independent of the guards of HiveCore: whatever the code
\* accepts, it must accept completely.
Tokens(S, v) ==
  LET r == S.veh[v] IN
  CASE r.act = "ChargingStation" -> {<<"plug", r.tgt, r.plug>>}
    [] r.act = "ChargeQueueing"  -> {<<"queue", r.tgt, r.plug>>}
    [] r.act = "ReserveBase"     -> {<<"stall", r.tgt, None>>}
    [] r.act = "ChargingBase"    -> {<<"stall", r.tgt, None>>, <<"plug", BaseStation(S, r.tgt), r.plug>>}
    [] r.act = "DispatchTrip"    -> {<<"req", r.tgt, None>>}
    [] OTHER -> {}
TokenExists(S, k) ==
  CASE k[1] \in {"plug", "queue"} -> Installed(S, k[2], k[3])
    [] k[1] = "stall" -> HasBs(S, k[2])
    [] OTHER -> HasReq(S, k[2])
\* how much of the resource is left (for a queue: minus its length), so that taking always lowers it by one
TokenLevel(S, k) ==
  CASE k[1] = "plug"  -> S.st[k[2]].pl[k[3]].av
    [] k[1] = "queue" -> 0 - S.st[k[2]].pl[k[3]].qn
    [] k[1] = "stall" -> S.bs[k[2]].stall
    [] OTHER -> 0
C09_Effects(S, T, v, out) ==
  IF out # "applied" \/ v \notin DOMAIN S.veh \/ v \notin DOMAIN T.veh THEN {} ELSE
  LET old == Tokens(S, v)  new == Tokens(T, v)
      both(k) == TokenExists(S, k) /\ TokenExists(T, k) IN
     {V("C09", "applied_with_all_side_effects", k[1] \o "_does_not_exist", v) : k \in {k \in new : ~TokenExists(T, k)}}
  \cup {V("C09", "applied_with_all_side_effects", k[1] \o "_not_taken", v) : k \in {k \in new \ old :
          both(k) /\ k[1] # "req" /\ TokenLevel(T, k) # TokenLevel(S, k) - 1}}
  \cup {V("C09", "applied_with_all_side_effects", k[1] \o "_not_given_back", v) : k \in {k \in old \ new :
          both(k) /\ k[1] # "req" /\ TokenLevel(T, k) # TokenLevel(S, k) + 1}}
  \cup {V("C09", "applied_with_all_side_effects", k[1] \o "_changed", v) : k \in {k \in old \cap new :
          both(k) /\ k[1] # "req" /\ TokenLevel(T, k) # TokenLevel(S, k)}}
  \cup {V("C09", "applied_with_all_side_effects", "request_not_assigned", v) : k \in {k \in new :
          k[1] = "req" /\ HasReq(T, k[2]) /\ T.req[k[2]].disp # v}}
  \cup {V("C09", "applied_with_all_side_effects", "request_not_released", v) : k \in {k \in old \ new :
          k[1] = "req" /\ HasReq(T, k[2]) /\ T.req[k[2]].disp = v}}

-----------------------------------------------------------------------------
(* C04 - vehicle energy stays physical and fully accounted for.                                          *)
(* Quantities are fixed point (1e-3 kWh / gallon).  Strict comparisons use the booleans the tracer       *)
(* evaluated on the unrounded floats (the num record), bounds and identities use the scaled integers.            *)
Charging == {"ChargingStation", "ChargingBase"}

C04_State(S, cap, en0) ==
  {V("C04", "energy_bounds", S.veh[v].kind, v) : v \in {v \in DOMAIN S.veh :
      v \in DOMAIN cap /\ ~(0 <= S.veh[v].en /\ S.veh[v].en <= cap[v] + 1)}}
  \cup
  {V("C04", "accounting", S.veh[v].kind, v) : v \in {v \in DOMAIN S.veh :
      v \in DOMAIN en0 /\
      LET d == S.veh[v].en - (en0[v] + S.veh[v].gained - S.veh[v].spent) IN d > 3 \/ d < -3}}

\* one vehicle update: B before, T after, n = numeric facts, out = outcome
C04_Update(B, T, v, n, out) ==
  LET a == T.veh[v].act  k == T.veh[v].kind  went_oos == a = "OutOfService" /\ B.veh[v].act # "OutOfService" IN
     (IF ~n.acct_ok THEN {V("C04", "accounting_step", k, v)} ELSE {})
  \cup (IF n.spent_neg \/ n.gain_neg THEN {V("C04", "totals_monotone", k, v)} ELSE {})
  \cup (IF n.moved /\ ~(n.spent_pos /\ n.en_down) THEN {V("C04", "driving_expends", k, v)} ELSE {})
  \cup (IF out = "ok" /\ a \in {"Idle", "ChargeQueueing"} /\ ~n.was_empty /\ ~(n.spent_pos /\ n.en_down)
           /\ ~("idle_rate_zero" \in DOMAIN n /\ n.idle_rate_zero)     \* the definition itself says idling costs nothing
        THEN {V("C04", "idling_expends", k, v)} ELSE {})
     \* a step spent waiting is idling whether or not the simulator carried the vehicle's update out: an update that is
     \* dropped (a vetoed default transition, an error) leaves a vehicle that idled for the whole step without any draw
  \cup (IF out # "ok" /\ B.veh[v].act \in {"Idle", "ChargeQueueing"} /\ a = B.veh[v].act /\ ~n.was_empty /\ ~n.spent_pos
           /\ ~("idle_rate_zero" \in DOMAIN n /\ n.idle_rate_zero)
        THEN {V("C04", "idling_expends", "update_dropped/" \o k, v)} ELSE {})
     \* "a vehicle that lacks the energy for its next movement stops and goes out of service instead of moving on":
     \* the update in which the tank / battery runs dry does not change the position
  \cup (IF B.veh[v].act \in Moving /\ ~B.veh[v].empty /\ T.veh[v].empty /\ T.veh[v].pos # B.veh[v].pos
        THEN {V("C04", "stops_when_out_of_energy", k, v)} ELSE {})
  \cup (IF a \in Charging /\ n.en_down THEN {V("C04", "charging_never_lowers", k, v)} ELSE {})
  \cup (IF ~n.gain_le_plug THEN {V("C04", "charge_within_plug_power", k, v)} ELSE {})
  \cup (IF n.gain_pos /\ a \notin Charging THEN {V("C04", "gain_only_when_charging", a, v)} ELSE {})
  \cup (IF n.moved /\ (T.veh[v].empty \/ went_oos) THEN {V("C04", "empty_vehicle_stops", k, v)} ELSE {})

\* any other event leaves every vehicle's energy figures alone
C04_Frame(B, T) ==
  {V("C04", "energy_changes_only_in_updates", "vehicle", v) : v \in {v \in DOMAIN B.veh \cap DOMAIN T.veh :
      <<B.veh[v].en, B.veh[v].gained, B.veh[v].spent>> # <<T.veh[v].en, T.veh[v].gained, T.veh[v].spent>>}}

-----------------------------------------------------------------------------
(* C05 - energy and money are conserved between vehicles and stations (money 1e-4, prices 1e-4 per kWh) *)
Abs(x) == IF x < 0 THEN -x ELSE x
StationsTouched(B, T) ==
  {s \in DOMAIN B.st \cap DOMAIN T.st : B.st[s].bal # T.st[s].bal \/ B.st[s].disp # T.st[s].disp}

\* fare = value of the requests picked up in this update (0 if none)
\* n: the exact comparisons logged with the update (or <<>>)
C05_Exact(T, v, n) ==
     (IF "disp_ok" \in DOMAIN n /\ ~n.disp_ok THEN {V("C05", "energy_both_sides", "exact", v)} ELSE {})
  \cup (IF "pay_ok" \in DOMAIN n /\ ~n.pay_ok /\ T.veh[v].ob = None THEN {V("C05", "payment_received_in_full", "exact", v)} ELSE {})

C05_Update(B, T, v, fare) ==
  LET a   == T.veh[v].act
      dE  == T.veh[v].gained - B.veh[v].gained
      pay == fare - (T.veh[v].bal - B.veh[v].bal)
      s   == IF a = "ChargingStation" THEN T.veh[v].tgt ELSE IF a = "ChargingBase" THEN BaseStation(T, T.veh[v].tgt) ELSE None
      p   == T.veh[v].plug
      k   == T.veh[v].kind
  IN
  IF a \in Charging /\ s \in DOMAIN B.st /\ p \in DOMAIN B.st[s].pl THEN
       LET price == B.st[s].pl[p].price
           \* a station that keeps no meter for this energy type has booked nothing
           Meter(St) == IF k \in DOMAIN St.st[s].disp THEN St.st[s].disp[k] ELSE 0
           dDisp == Meter(T) - Meter(B)
           dBal  == T.st[s].bal - B.st[s].bal IN
          (IF Abs(dDisp - dE) > 2 THEN {V("C05", "energy_both_sides", a, v)} ELSE {})
       \cup (IF Abs(dBal - pay) > 2 THEN {V("C05", "payment_received_in_full", a, v)} ELSE {})
       \cup (IF Abs(pay - ((price * dE) \div 1000)) > 3 + (Abs(price) \div 500) THEN {V("C05", "priced_at_tariff", a, v)} ELSE {})
       \cup (IF StationsTouched(B, T) \ {s} # {} THEN {V("C05", "only_the_station_used", a, v)} ELSE {})
       \cup (IF \E kk \in (DOMAIN T.st[s].disp \cap DOMAIN B.st[s].disp) \ {k} : T.st[s].disp[kk] # B.st[s].disp[kk]
             THEN {V("C05", "energy_type_booked", a, v)} ELSE {})
  ELSE
          (IF Abs(dE) > 0 \/ Abs(pay) > 1 THEN {V("C05", "no_ledger_change_without_charging", a, v)} ELSE {})
       \cup (IF StationsTouched(B, T) # {} THEN {V("C05", "station_ledger_only_by_charging", a, v)} ELSE {})

C05_Frame(B, T) ==
     {V("C05", "balance_changes_only_in_updates", "vehicle", v) : v \in {v \in DOMAIN B.veh \cap DOMAIN T.veh :
         B.veh[v].bal # T.veh[v].bal}}
  \cup {V("C05", "station_ledger_only_by_charging", "station", s) : s \in StationsTouched(B, T)}

\* totals at a step boundary: energy per kind, and money (fares is the sum of the values of picked-up requests)
SumOver(f, dom, Val(_)) ==
  LET RECURSIVE Go(_)
      Go(D) == IF D = {} THEN 0 ELSE LET x == CHOOSE x \in D : TRUE IN Val(x) + Go(D \ {x})
  IN Go(dom)

C05_Totals(S, disp0, fares, nev) ==
  LET kinds == {"electric", "gasoline"}
      gained(k) == SumOver(S.veh, {v \in DOMAIN S.veh : S.veh[v].kind = k}, LAMBDA v : S.veh[v].gained)
      dispd(k)  == SumOver(S.st, {s \in DOMAIN S.st : k \in DOMAIN S.st[s].disp}, LAMBDA s : S.st[s].disp[k])
      money     == SumOver(S.veh, DOMAIN S.veh, LAMBDA v : S.veh[v].bal) + SumOver(S.st, DOMAIN S.st, LAMBDA s : S.st[s].bal)
  IN
     {V("C05", "fleet_energy_equals_dispensed", k, k) : k \in {k \in kinds :
         Abs(gained(k) - (dispd(k) - disp0[k])) > 2 * nev + 2}}
  \cup (IF Abs(money - fares) > 2 * nev + 2 THEN {V("C05", "money_conserved", "total", "total")} ELSE {})

-----------------------------------------------------------------------------
(* C06 - vehicles move continuously and no faster than the road allows.                                   *)
(* A route is a sequence of links <<id, start, end, dist_m, tt_ms, tt_whole_s>> (rt field).  The clauses  *)
(* speak about one vehicle update in which the vehicle stays in the same travelling activity, i.e. a pure *)
(* move: R0 the route before, R1 the remaining route after, k the number of links consumed entirely.      *)
(* A link whose start equals its end is not driven at all (linktraversal.traverse_up_to: "already done"): it  *)
(* costs no time and no distance whatever the length of the road-network link it names.  Likewise a whole  *)
(* route whose first start equals its last end is dropped without being driven (HiveTraverse: closed).      *)
LId(l) == l[1]   LStart(l) == l[2]   LEnd(l) == l[3]
Degenerate(l) == l[2] = l[3]
LDist(l) == IF Degenerate(l) THEN 0 ELSE l[4]
LTtMs(l) == IF Degenerate(l) THEN 0 ELSE l[5]
LTtS(l)  == IF Degenerate(l) THEN 0 ELSE l[6]

SumSeq(sq, n, F(_)) ==
  LET RECURSIVE Go(_)
      Go(i) == IF i = 0 THEN 0 ELSE F(sq[i]) + Go(i - 1)
  IN Go(n)

PureMove(B, T, v) ==
  /\ B.veh[v].act \in Moving /\ T.veh[v].act = B.veh[v].act /\ T.veh[v].tgt = B.veh[v].tgt /\ B.veh[v].rn > 0

\* `now`: <<>> or, per link of the route before, <<travel time in ms, in whole seconds>> at the speeds the road network
\* reports in this step (logged when they differ from the speeds stored in the route): the speeds that count
C06_Move(B, T, v, dt, now) ==
  LET R0 == B.veh[v].rt  R1 == T.veh[v].rt
      TtS(i)  == IF now # <<>> /\ ~Degenerate(R0[i]) THEN now[i][2] ELSE LTtS(R0[i])
      TtMs(i) == IF now # <<>> /\ ~Degenerate(R0[i]) THEN now[i][1] ELSE LTtMs(R0[i])
      SumIdx(n, F(_)) == LET RECURSIVE Go(_)
                             Go(i) == IF i = 0 THEN 0 ELSE F(i) + Go(i - 1)
                         IN Go(n)
      k  == Len(R0) - Len(R1)
      split == R1 # <<>> /\ k >= 0 /\ k < Len(R0) /\ LStart(R1[1]) # LStart(R0[k + 1])
      dOdo == T.veh[v].odo - B.veh[v].odo
      a == B.veh[v].act
  IN
  IF ~PureMove(B, T, v) THEN {}
  \* a route that ends where it starts (the street-graph router returns a loop round the block for a trip to the
  \* vehicle's own position) is "consumed" by routetraversal.traverse without being driven: nothing moves
  ELSE IF LStart(R0[1]) = LEnd(R0[Len(R0)]) THEN
       (IF R1 # <<>> \/ dOdo # 0 \/ T.veh[v].pos # B.veh[v].pos THEN {V("C06", "closed_route_is_consumed", a, v)} ELSE {})
  ELSE IF k < 0 THEN {V("C06", "route_is_suffix", a, v)}
  ELSE
     \* the driven part followed by the remaining part is the original route: same links, same order, same
     \* destination; only the first remaining link may have been split (its start moved forward)
     (IF \E i \in 1..Len(R1) :
            \/ LId(R1[i]) # LId(R0[k + i]) \/ LEnd(R1[i]) # LEnd(R0[k + i])
            \/ (i > 1 /\ R1[i] # R0[k + i])
         THEN {V("C06", "route_is_suffix", a, v)} ELSE {})
     \* the vehicle stands at the junction of driven and remaining part
  \cup (IF T.veh[v].pos # (IF R1 # <<>> THEN LStart(R1[1]) ELSE LEnd(R0[Len(R0)]))
        THEN {V("C06", "position_at_junction", a, v)} ELSE {})
     \* links are entered only while time remains, each charged its whole-second travel time
  \cup (IF SumIdx(k, TtS) > dt THEN {V("C06", "no_faster_than_links_allow", a, v)} ELSE {})
  \cup (IF SumIdx(k, TtMs) > 1000 * (dt + k) THEN {V("C06", "no_faster_than_links_allow", "exact_time", v)} ELSE {})
     \* ... nor further INTO the link it stops in than the time left allows at that link's speed (2 % + 3 m + 2 s for the
     \* cell grid and the whole-second rounding)
  \cup (IF split /\ TtS(k + 1) > 0 /\ TtS(k + 1) < 100000 /\ dOdo - SumSeq(R0, k, LDist) < 20000 /\ dt < 20000    \* 32-bit products
           /\ (dOdo - SumSeq(R0, k, LDist)) * TtS(k + 1)
                > ((LDist(R0[k + 1]) * (dt - SumIdx(k, TtS) + 2)) \div 100) * 102 + 3 * TtS(k + 1) + 102
        THEN {V("C06", "no_faster_than_links_allow", "within_link", v)} ELSE {})
     \* odometer: the links driven entirely, plus at most the split link
  \cup (IF dOdo < SumSeq(R0, k, LDist) - (k + 2)
           \/ dOdo > SumSeq(R0, IF split THEN k + 1 ELSE k, LDist) + (k + 3)
        THEN {V("C06", "odometer_matches_distance", IF split THEN "split" ELSE "whole_links", v)} ELSE {})
     \* progress: fewer links remain, or the same first link with a start further along
  \cup (IF R1 # <<>> /\ k = 0 /\ LStart(R1[1]) = LStart(R0[1]) /\ LStart(R0[1]) # LEnd(R0[Len(R0)])
        THEN {V("C06", "progress_every_step", a, v)} ELSE {})

\* position and odometer change only in the update of a vehicle whose (performing) activity travels
C06_Frame(B, T, isUpdate, uv) ==
  {V("C06", "moves_only_while_travelling", T.veh[v].act, v) : v \in {v \in DOMAIN B.veh \cap DOMAIN T.veh :
      /\ (B.veh[v].pos # T.veh[v].pos \/ B.veh[v].odo # T.veh[v].odo)
      /\ ~(isUpdate /\ v = uv /\ (T.veh[v].act \in Moving \/ (T.veh[v].act = "OutOfService" /\ B.veh[v].act \in Moving)))}}

\* "its odometer grows by exactly the distance covered" also in the step in which the vehicle runs dry or arrives: a
\* changed position with an odometer that did not grow at all (exact comparison of the floats, logged as n.odo_up) is
\* only possible over links of no length
\* the straight-line displacement of the update is within what the fastest link of the route allows (logged: geo_ok)
C06_Geo(B, v, n) ==
  IF B.veh[v].act \in Moving /\ "geo_ok" \in DOMAIN n /\ ~n.geo_ok
  THEN {V("C06", "no_faster_than_links_allow", "straight_line", v)} ELSE {}

C06_Odo(B, T, v, n) ==
  LET R0 == B.veh[v].rt IN
  IF B.veh[v].act \in Moving /\ "odo_up" \in DOMAIN n /\ ~n.odo_up /\ T.veh[v].pos # B.veh[v].pos
     /\ ~\E i \in DOMAIN R0 : LEnd(R0[i]) = T.veh[v].pos /\ SumSeq(R0, i, LDist) = 0
  THEN {V("C06", "odometer_matches_distance", "moved_without_odometer", v)} ELSE {}

\* a vehicle whose route is exhausted leaves the travelling activity at its next update
C06_Arrived(T, arrived, v) ==
  IF v \in DOMAIN arrived /\ arrived[v] >= 1
  THEN {V("C06", "leaves_after_arrival",
          T.veh[v].act \o (IF T.veh[v].act = "DispatchTrip" /\ T.veh[v].tgt \in DOMAIN T.req /\ T.req[T.veh[v].tgt].pool /\ T.veh[v].pool
                           THEN "/pooling_handoff" ELSE ""), v)}
  ELSE {}

-----------------------------------------------------------------------------
(* C15 - the clock advances uniformly: only a tick changes the time, by exactly the step length *)
C15_Step(B, T, ev, dt) ==
  IF ev = "tick" THEN (IF T.now # B.now + dt THEN {V("C15", "tick_advances_one_step", "tick", "clock")} ELSE {})
  ELSE (IF T.now # B.now THEN {V("C15", "only_tick_changes_time", ev, "clock")} ELSE {})

-----------------------------------------------------------------------------
(* C20 - human drivers follow their shift schedule.  sched[v] = <<start, end>> in seconds of day.       *)
InShift(sh, t) ==
  LET x == t % 86400 IN
  IF sh[1] <= sh[2] THEN sh[1] <= x /\ x < sh[2] ELSE sh[1] <= x \/ x < sh[2]

\* after the driver update of the step that starts at T.now
C20_Drivers(B, T, sched, events) ==
     {V("C20", "available_iff_in_shift", IF T.veh[v].avail THEN "on_outside_shift" ELSE "off_inside_shift", v) :
         v \in {v \in DOMAIN T.veh : T.veh[v].human /\ T.veh[v].sched \in DOMAIN sched
                                      /\ T.veh[v].avail # InShift(sched[T.veh[v].sched], T.now)}}
  \cup {V("C20", "event_iff_flip", "flip_without_event", v) : v \in {v \in DOMAIN T.veh \cap DOMAIN B.veh :
         B.veh[v].avail # T.veh[v].avail
         /\ ~\E x \in events : x.vehicle_id = v /\ x.schedule_event = (IF T.veh[v].avail THEN "on" ELSE "off")}}
  \cup {V("C20", "event_iff_flip", "event_without_flip", x.vehicle_id) : x \in {x \in events :
         ~(x.vehicle_id \in DOMAIN T.veh \cap DOMAIN B.veh /\ B.veh[x.vehicle_id].avail # T.veh[x.vehicle_id].avail
           /\ x.schedule_event = (IF T.veh[x.vehicle_id].avail THEN "on" ELSE "off"))}}
  \cup {V("C20", "autonomous_always_available", "vehicle", v) : v \in {v \in DOMAIN T.veh : ~T.veh[v].human /\ ~T.veh[v].avail}}

\* the built-in dispatcher's emission, against the state it was computed from
C20_Dispatch(S, instrs) ==
  {V("C20", "no_dispatch_off_shift", "Dispatcher", instrs[i].v) : i \in {i \in DOMAIN instrs :
      instrs[i].kind = "DispatchTrip" /\ instrs[i].v \in DOMAIN S.veh /\ ~S.veh[instrs[i].v].avail}}

=============================================================================
