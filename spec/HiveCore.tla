------------------------------ MODULE HiveCore ------------------------------
(***************************************************************************)
(* The vehicle activity state machine of HIVE as pure state transformers.  *)
(*                                                                         *)
(* This module declares no variables.  Every operator takes the simulation *)
(* state as a record                                                       *)
(*     S = [veh, st, bs, req, now, ord]   (ord: rank of the vehicle ids)   *)
(* and returns a result record [ok, err, S]: `ok` means the code returned  *)
(* an updated simulation, `err` distinguishes an error from the silent     *)
(* (None, None) rejection - both leave the caller's state unchanged, which *)
(* is exactly entity_state_ops.transition_previous_to_next and             *)
(* step_simulation_ops.step_vehicle.  The bounded model (HiveModel) and    *)
(* the trace specification (HiveTrace) both drive these operators, so the  *)
(* conformance check and the exhaustive exploration speak about the same   *)
(* definitions.                                                            *)
(*                                                                         *)
(* Structure mirrors the code: one CASE arm per activity in Exit / Enter / *)
(* Terminal / DefaultNext / Perform (state/vehicle_state/*.py), conditions *)
(* in the code's order of evaluation.  Deliberate deviations of the        *)
(* implementation from the ideal are switched by boolean constants so the  *)
(* same module describes the tree before and after a repair.               *)
(***************************************************************************)
EXTENDS Naturals, Integers, Sequences, FiniteSets, TLC

CONSTANTS
  FixOOS,        \* TRUE: running out of energy en route runs the old activity's exit (request unassigned, ...)
  FixCB,         \* TRUE: ChargingBase.enter demands co-location with the base
  FixFull,       \* TRUE: charge() on a full vehicle is a no-op instead of an error
  FixQueuePlug,  \* TRUE: queueing / dispatching for a plug type the station lacks (or the vehicle cannot use) is rejected
  FixFifo        \* TRUE: a queued vehicle cannot be plugged in (by whatever instruction) past vehicles that joined the queue earlier

None == ""

Moving      == {"Repositioning", "DispatchTrip", "ServicingTrip", "DispatchStation", "DispatchBase"}
StationActs == {"DispatchStation", "ChargingStation", "ChargeQueueing"}
BaseActs    == {"DispatchBase", "ReserveBase", "ChargingBase"}
TripActs    == {"DispatchTrip", "ServicingTrip"}
PoolingActs == {"DispatchPoolingTrip", "ServicingPoolingTrip"}
Acts        == {"Idle", "OutOfService", "ReserveBase", "ChargingStation", "ChargingBase", "ChargeQueueing"}
               \cup Moving \cup PoolingActs

(* Membership.grant_access_to_membership: a resource without membership is public *)
Access(resFleets, vehFleets) == resFleets = {} \/ (resFleets \cap vehFleets) # {}

HasSt(S, s)  == s \in DOMAIN S.st
HasBs(S, b)  == b \in DOMAIN S.bs
HasReq(S, r) == r \in DOMAIN S.req
Installed(S, s, p) == HasSt(S, s) /\ p \in DOMAIN S.st[s].pl
AvailPlugs(S, s, p) == IF Installed(S, s, p) THEN S.st[s].pl[p].av ELSE 0   \* Station.get_available_chargers
BaseStation(S, b) == IF HasBs(S, b) THEN S.bs[b].st ELSE None

(* result records *)
Ok(S)  == [ok |-> TRUE,  err |-> FALSE, S |-> S]
Rej(S) == [ok |-> FALSE, err |-> FALSE, S |-> S]    \* (None, None)
Err(S) == [ok |-> FALSE, err |-> TRUE,  S |-> S]    \* (error, None)

(* a next-activity record: what an Instruction / a default transition proposes *)
Nx(a, t, p, n, s, e, q) == [act |-> a, tgt |-> t, plug |-> p, rn |-> n, rs |-> s, re |-> e, enq |-> q]
NxIdle == Nx("Idle", None, None, 0, None, None, -1)
NxOOS  == Nx("OutOfService", None, None, 0, None, None, -1)

SetAct(S, v, nx) ==
  [S EXCEPT !.veh[v] = [@ EXCEPT !.act = nx.act, !.tgt = nx.tgt, !.plug = nx.plug,
                                 !.rn = nx.rn, !.rs = nx.rs, !.re = nx.re, !.enq = nx.enq,
                                 !.ob = IF nx.act = "ServicingTrip" THEN nx.tgt ELSE None,
                                 !.obdest = IF nx.act = "ServicingTrip" /\ nx.tgt \in DOMAIN S.req
                                            THEN S.req[nx.tgt].paxdest ELSE {}]]

(* route_cooresponds_with_entities(route, src[, dst]) on the route summary (rn, rs, re) *)
SamePos(a, b) == a.pos = b.pos /\ a.lnk = b.lnk              \* EntityPosition equality
RouteFrom(nx, src) == nx.rn = 0 \/ nx.rs = src.pos
RouteFromTo(nx, src, dstpos, dstlnk) ==
  IF nx.rn = 0 THEN (src.pos = dstpos /\ src.lnk = dstlnk)
  ELSE nx.rs = src.pos /\ nx.re = dstpos

-----------------------------------------------------------------------------
(* Station / Base counter operations (charger_state.py, station_ops.py, base.py) *)

\* Station.return_charger: a plug type the station does not have leaves the station unchanged
ReturnPlug(S, s, p) ==
  IF ~Installed(S, s, p) THEN Ok(S)
  ELSE IF S.st[s].pl[p].av >= S.st[s].pl[p].tot THEN Err(S)
  ELSE Ok([S EXCEPT !.st[s].pl[p].av = @ + 1])

\* Station.checkout_charger: none available -> (None, None)
CheckoutPlug(S, s, p) ==
  IF ~Installed(S, s, p) THEN Ok(S)
  ELSE IF S.st[s].pl[p].av = 0 THEN Rej(S)
  ELSE Ok([S EXCEPT !.st[s].pl[p].av = @ - 1])

Enqueue(S, s, p) ==
  IF ~Installed(S, s, p) THEN Ok(S) ELSE Ok([S EXCEPT !.st[s].pl[p].qn = @ + 1])

Dequeue(S, s, p) ==
  IF ~Installed(S, s, p) THEN Ok(S)
  ELSE IF S.st[s].pl[p].qn = 0 THEN Err(S)
  ELSE Ok([S EXCEPT !.st[s].pl[p].qn = @ - 1])

ReturnStall(S, b) ==
  IF S.bs[b].stall + 1 > S.bs[b].tot THEN Err(S) ELSE Ok([S EXCEPT !.bs[b].stall = @ + 1])

-----------------------------------------------------------------------------
(* exit() of each activity *)
ExitOp(S, v) ==
  LET r == S.veh[v]  a == r.act  t == r.tgt  p == r.plug IN
  CASE a = "ChargingStation" ->
         IF ~HasSt(S, t) THEN Err(S) ELSE ReturnPlug(S, t, p)
    [] a = "ChargeQueueing" ->
         IF ~HasSt(S, t) THEN Err(S) ELSE Dequeue(S, t, p)
    [] a = "ReserveBase" ->
         IF ~HasBs(S, t) THEN Err(S) ELSE ReturnStall(S, t)
    [] a = "ChargingBase" ->
         IF ~HasBs(S, t) THEN Err(S)
         ELSE IF ~HasSt(S, S.bs[t].st) THEN Err(S)
         ELSE LET R1 == ReturnStall(S, t) IN
              IF ~R1.ok THEN Err(S)
              ELSE LET R2 == ReturnPlug(R1.S, S.bs[t].st, p) IN
                   IF ~R2.ok THEN Err(S) ELSE R2
    [] a = "DispatchTrip" ->
         IF ~HasReq(S, t) THEN Ok(S)
         ELSE Ok([S EXCEPT !.req[t].disp = None, !.req[t].dtime = -1])
    [] a = "ServicingTrip" ->
         IF r.rn = 0 THEN Ok(S) ELSE Rej(S)
    [] a \in PoolingActs -> Rej(S)        \* not reachable in the current tree (see DESIGN 1)
    [] OTHER -> Ok(S)

-----------------------------------------------------------------------------
(* enter() of each activity; nx is the proposed activity record *)
EnterChargingStation(S, v, s, p) ==
  LET r == S.veh[v] IN
  IF ~HasSt(S, s) THEN Err(S)
  ELSE IF r.pos # S.st[s].pos THEN Rej(S)
  ELSE IF ~Access(S.st[s].fleets, r.fleets) THEN Err(S)
  ELSE IF ~Installed(S, s, p) THEN Err(S)
  ELSE IF S.st[s].pl[p].kind # r.kind THEN Err(S)
  \* first come, first served also for instructions: S.ord is Python's order of the vehicle ids (the tie-break)
  ELSE IF FixFifo /\ r.act = "ChargeQueueing" /\ r.tgt = s /\ r.plug = p
          /\ \E w \in DOMAIN S.veh \ {v} :
                /\ S.veh[w].act = "ChargeQueueing" /\ S.veh[w].tgt = s /\ S.veh[w].plug = p
                /\ \/ S.veh[w].enq < r.enq
                   \/ (S.veh[w].enq = r.enq /\ w \in DOMAIN S.ord /\ v \in DOMAIN S.ord /\ S.ord[w] < S.ord[v])
       THEN Rej(S)
  ELSE LET C == CheckoutPlug(S, s, p) IN
       IF ~C.ok THEN C
       ELSE Ok(SetAct(C.S, v, Nx("ChargingStation", s, p, 0, None, None, -1)))

EnterOp(S, v, nx) ==
  LET r == S.veh[v]  a == nx.act  t == nx.tgt  p == nx.plug IN
  CASE a \in {"Idle", "OutOfService"} -> Ok(SetAct(S, v, nx))
    [] a = "Repositioning" ->
         IF ~RouteFrom(nx, r) THEN Rej(S) ELSE Ok(SetAct(S, v, nx))
    [] a = "DispatchTrip" ->
         IF ~HasReq(S, t) THEN Rej(S)
         ELSE IF ~Access(S.req[t].fleets, r.fleets) THEN Err(S)
         ELSE IF ~RouteFromTo(nx, r, S.req[t].pos, S.req[t].lnk) THEN Rej(S)
         ELSE Ok(SetAct([S EXCEPT !.req[t].disp = v, !.req[t].dtime = S.now], v, nx))
    [] a = "ServicingTrip" ->
         IF ~HasReq(S, t) THEN Rej(S)
         ELSE LET q == S.req[t] IN
              IF ~RouteFromTo(nx, q, q.dpos, q.dlnk) THEN Err(S)
              ELSE IF r.act # "DispatchTrip" THEN Err(S)
              ELSE IF ~Access(q.fleets, r.fleets) THEN Err(S)
              ELSE IF ~RouteFrom(nx, r) THEN Rej(S)
              ELSE \* pick_up_trip: fare credited, request removed
                   LET P == SetAct(S, v, nx) IN
                   Ok([P EXCEPT !.req = [x \in DOMAIN S.req \ {t} |-> S.req[x]]])
    [] a = "DispatchStation" ->
         IF ~HasSt(S, t) THEN Err(S)
         ELSE IF S.st[t].pos = r.pos THEN EnterChargingStation(S, v, t, p)       \* "already there!"
         ELSE IF ~RouteFromTo(nx, r, S.st[t].pos, S.st[t].lnk) THEN Rej(S)
         ELSE IF ~Access(S.st[t].fleets, r.fleets) THEN Err(S)
         ELSE IF FixQueuePlug /\ ~Installed(S, t, p) THEN Err(S)
         ELSE IF FixQueuePlug /\ S.st[t].pl[p].kind # r.kind THEN Err(S)    \* a plug the vehicle could never use
         ELSE Ok(SetAct(S, v, nx))
    [] a = "ChargingStation" -> EnterChargingStation(S, v, t, p)
    [] a = "ChargeQueueing" ->
         IF ~HasSt(S, t) THEN Err(S)
         ELSE IF r.pos # S.st[t].pos THEN Rej(S)
         ELSE IF AvailPlugs(S, t, p) > 0 THEN Rej(S)
         ELSE IF ~Access(S.st[t].fleets, r.fleets) THEN Err(S)
         ELSE IF FixQueuePlug /\ ~Installed(S, t, p) THEN Err(S)
         ELSE LET Q == Enqueue(S, t, p) IN Ok(SetAct(Q.S, v, nx))
    [] a = "DispatchBase" ->
         IF ~HasBs(S, t) THEN Err(S)
         ELSE IF ~RouteFromTo(nx, r, S.bs[t].pos, S.bs[t].lnk) THEN Rej(S)
         ELSE IF ~Access(S.bs[t].fleets, r.fleets) THEN Err(S)
         ELSE Ok(SetAct(S, v, nx))
    [] a = "ReserveBase" ->
         IF ~HasBs(S, t) THEN Err(S)
         ELSE IF S.bs[t].pos # r.pos THEN Rej(S)
         ELSE IF ~Access(S.bs[t].fleets, r.fleets) THEN Err(S)
         ELSE IF S.bs[t].stall < 1 THEN Rej(S)
         ELSE Ok(SetAct([S EXCEPT !.bs[t].stall = @ - 1], v, nx))
    [] a = "ChargingBase" ->
         IF ~HasBs(S, t) THEN Err(S)
         ELSE LET s == S.bs[t].st IN
              IF s = None THEN Err(S)
              ELSE IF ~HasSt(S, s) THEN Err(S)
              ELSE IF ~Access(S.bs[t].fleets, r.fleets) THEN Err(S)
              ELSE IF FixCB /\ S.bs[t].pos # r.pos THEN Rej(S)
              ELSE IF S.bs[t].stall < 1 THEN Rej(S)
              ELSE IF ~Installed(S, s, p) THEN Err(S)
              ELSE IF S.st[s].pl[p].kind # r.kind THEN Err(S)
              \* first come, first served also through the base: a vehicle waiting in the station's queue does not take
              \* one of its plugs past vehicles that queued earlier (same rule as EnterChargingStation)
              ELSE IF FixFifo /\ r.act = "ChargeQueueing" /\ r.tgt = s /\ r.plug = p
                      /\ \E w \in DOMAIN S.veh \ {v} :
                            /\ S.veh[w].act = "ChargeQueueing" /\ S.veh[w].tgt = s /\ S.veh[w].plug = p
                            /\ \/ S.veh[w].enq < r.enq
                               \/ (S.veh[w].enq = r.enq /\ w \in DOMAIN S.ord /\ v \in DOMAIN S.ord /\ S.ord[w] < S.ord[v])
                   THEN Rej(S)
              ELSE IF S.st[s].pl[p].av = 0 THEN Rej(S)
              ELSE Ok(SetAct([S EXCEPT !.bs[t].stall = @ - 1, !.st[s].pl[p].av = @ - 1], v, nx))
    [] OTHER -> Err(S)     \* pooling activities: every way in is rejected in the current tree

(* entity_state_ops.transition_previous_to_next: all or nothing *)
TransOp(S, v, nx) ==
  LET E == ExitOp(S, v) IN
  IF ~E.ok THEN [E EXCEPT !.S = S]
  ELSE LET N == EnterOp(E.S, v, nx) IN
       IF ~N.ok THEN [N EXCEPT !.S = S] ELSE N

-----------------------------------------------------------------------------
(* default_update: terminal condition, default next activity, perform_update *)

Terminal(S, v) ==
  LET r == S.veh[v]  a == r.act IN
  CASE a = "Idle" -> r.empty
    [] a \in Moving -> r.rn = 0
    [] a \in {"ChargingStation", "ChargingBase"} -> r.full
    [] a = "ChargeQueueing" -> ~HasSt(S, r.tgt) \/ AvailPlugs(S, r.tgt, r.plug) > 0
    [] OTHER -> FALSE

(* _default_terminal_state: [k |-> "err" | "next", nx |-> ...].  The route of a fresh ServicingTrip    *)
(* is what the router returns for (origin, destination): empty iff the two positions coincide.       *)
DefaultNext(S, v) ==
  LET r == S.veh[v]  a == r.act  t == r.tgt
      E == [k |-> "err", nx |-> NxIdle]
      N(x) == [k |-> "next", nx |-> x] IN
  CASE a = "Idle" -> N(NxOOS)
    [] a \in {"Repositioning", "ServicingTrip", "ChargingStation"} -> N(NxIdle)
    [] a = "DispatchTrip" ->
         IF ~HasReq(S, t) THEN N(NxIdle)
         ELSE LET q == S.req[t] IN
              IF q.pos # r.pos THEN E
              ELSE IF r.pool /\ q.pool THEN N(Nx("ServicingPoolingTrip", t, None, 0, None, None, -1))
              ELSE IF q.pos = q.dpos /\ q.lnk = q.dlnk
                   THEN N(Nx("ServicingTrip", t, None, 0, None, None, -1))
                   ELSE N(Nx("ServicingTrip", t, None, 1, q.pos, q.dpos, -1))
    [] a = "DispatchStation" ->
         IF ~HasSt(S, t) THEN E
         ELSE IF S.st[t].pos # r.pos THEN E
         ELSE IF AvailPlugs(S, t, r.plug) > 0
              THEN N(Nx("ChargingStation", t, r.plug, 0, None, None, -1))
              ELSE N(Nx("ChargeQueueing", t, r.plug, 0, None, None, S.now))
    [] a = "DispatchBase" ->
         IF ~HasBs(S, t) THEN E
         ELSE IF S.bs[t].pos # r.pos THEN E
         ELSE IF S.bs[t].stall > 0 THEN N(Nx("ReserveBase", t, None, 0, None, None, -1))
         ELSE N(NxIdle)
    [] a = "ChargeQueueing" ->
         IF ~HasSt(S, t) THEN E
         ELSE IF AvailPlugs(S, t, r.plug) = 0 THEN E
         ELSE N(Nx("ChargingStation", t, r.plug, 0, None, None, -1))
    [] a = "ChargingBase" -> N(Nx("ReserveBase", t, None, 0, None, None, -1))
    [] OTHER -> N(Nx(a, t, r.plug, r.rn, r.rs, r.re, r.enq))

(* vehicle_state_ops.move.  prm.mv says how the nondeterministic (numeric) part resolved:              *)
(*   "stay" nothing to traverse, "part" moved and route remains, "arr" moved and route exhausted,      *)
(*   "oos"  the energy left would not cover the move: out of service, no movement.                     *)
(* prm.npos / prm.nlnk is where a partial move ended, prm.nrn how many links remain.                   *)
MoveOp(S, v, prm) ==
  LET r == S.veh[v] IN
  IF r.rn = 0 \/ prm.mv = "stay" THEN
       \* empty route, or first.start = last.end, or no link could be entered: the route is cleared
       Ok([S EXCEPT !.veh[v].rn = 0, !.veh[v].rs = None, !.veh[v].re = None])
  ELSE IF prm.mv = "oos" THEN
       IF FixOOS
       THEN LET X == ExitOp(S, v) IN Ok(SetAct(IF X.ok THEN X.S ELSE S, v, NxOOS))
       ELSE Ok(SetAct(S, v, NxOOS))                  \* _go_out_of_service_on_empty: enter without exit
  ELSE IF prm.mv = "arr" THEN
       Ok([S EXCEPT !.veh[v].pos = r.re, !.veh[v].lnk = prm.nlnk,
                    !.veh[v].rn = 0, !.veh[v].rs = None, !.veh[v].re = None])
  ELSE Ok([S EXCEPT !.veh[v].pos = prm.npos, !.veh[v].lnk = prm.nlnk,
                    !.veh[v].rn = prm.nrn, !.veh[v].rs = prm.npos])

(* vehicle_state_ops.charge: the energy / money side is numeric and checked by the ledger clauses *)
ChargeOp(S, v, s, p) ==
  IF FixFull /\ S.veh[v].full THEN Ok(S)        \* Charging*._perform_update: nothing to add, no-op
  ELSE IF ~HasSt(S, s) THEN Err(S)
  ELSE IF ~Installed(S, s, p) THEN Err(S)
  ELSE IF S.veh[v].full THEN Err(S)             \* charge() refuses a full vehicle
  ELSE Ok(S)

PerformOp(S, v, prm) ==
  LET r == S.veh[v]  a == r.act IN
  CASE a \in {"Repositioning", "DispatchTrip", "DispatchStation", "DispatchBase"} -> MoveOp(S, v, prm)
    [] a = "ServicingTrip" ->
         LET M == MoveOp(S, v, prm)  m == M.S.veh[v] IN
         IF m.act = "ServicingTrip" /\ m.rn = 0 /\ m.pos \notin m.obdest
         THEN Err(S)                                  \* drop_off_trip refuses a wrong destination
         ELSE M
    [] a = "ChargingStation" -> ChargeOp(S, v, r.tgt, r.plug)
    [] a = "ChargingBase" ->
         IF BaseStation(S, r.tgt) = None THEN Err(S) ELSE ChargeOp(S, v, BaseStation(S, r.tgt), r.plug)
    [] OTHER -> Ok(S)                                 \* Idle / ChargeQueueing (idle cost), OutOfService, ReserveBase

(* VehicleState.default_update followed by step_vehicle's "discard on error or None" *)
UpdateOp(S, v, prm) ==
  IF Terminal(S, v)
  THEN LET D == DefaultNext(S, v) IN
       IF D.k = "err" THEN Err(S)
       ELSE LET T == TransOp(S, v, D.nx) IN
            IF ~T.ok THEN T
            ELSE LET P == PerformOp(T.S, v, prm) IN
                 IF P.ok THEN P ELSE [P EXCEPT !.S = S]
  ELSE LET P == PerformOp(S, v, prm) IN
       IF P.ok THEN P ELSE [P EXCEPT !.S = S]

-----------------------------------------------------------------------------
(* Instruction.apply_instruction + transition (step_simulation_ops.apply_instructions)              *)
(* i = [kind, tgt, plug]; the route summary of the proposed activity is part of nx.                  *)
InstructionInvalid(S, v, i) ==
  \/ i.kind = "DispatchTrip" /\ ~HasReq(S, i.tgt)
  \/ i.kind = "DispatchStation" /\ ~HasSt(S, i.tgt)
  \/ i.kind = "DispatchBase" /\ ~HasBs(S, i.tgt)

ActOfInstruction(k) ==
  CASE k = "Idle" -> "Idle"                 [] k = "OutOfService" -> "OutOfService"
    [] k = "DispatchTrip" -> "DispatchTrip" [] k = "DispatchStation" -> "DispatchStation"
    [] k = "ChargeStation" -> "ChargingStation" [] k = "ChargeBase" -> "ChargingBase"
    [] k = "DispatchBase" -> "DispatchBase" [] k = "Reposition" -> "Repositioning"
    [] k = "ReserveBase" -> "ReserveBase"   [] k = "DispatchPoolingTrip" -> "DispatchPoolingTrip"
    [] OTHER -> "?"

=============================================================================
