------------------------------ MODULE HiveAgree ------------------------------
(***************************************************************************)
(* Lock-step agreement of runs (C01, C15, C16).                            *)
(*                                                                         *)
(* Each line of the log holds, for one index (a time step, the summary, a  *)
(* saved state, ...), the canonical observation of that index in K runs    *)
(* that must not differ: the same scenario under different interpreter     *)
(* hash seeds / processes (C01), the same scenario advanced through        *)
(* differently split co-simulation calls or the batch runner (C15), a      *)
(* saved state read before and after later steps, or stepped twice (C16).  *)
(* An observation is [state, reports]: `state` a list of <<entity id,      *)
(* canonical text>> pairs, `reports` a sorted list of canonical texts      *)
(* (per-run random tags removed, members of set-valued fields sorted).     *)
(* The specification deliberately does not say WHICH behaviour is right,   *)
(* only that all runs show the same one.                                   *)
(* Lines of kind "runner" carry the numbers of one batch run and are       *)
(* checked against the interval arithmetic of the statement (C15).         *)
(***************************************************************************)
EXTENDS Naturals, Integers, Sequences, FiniteSets, TLC, Json, IOUtils

VARIABLES l
TLog == ndJsonDeserialize(IOEnv.TRACE_FILE)

V(p, c, sig, w) == <<p, c, sig, w>>
SeqToSet(s) == {s[i] : i \in DOMAIN s}
PairsToFn(ps) == [k \in {ps[i][1] : i \in DOMAIN ps} |-> ps[CHOOSE i \in DOMAIN ps : ps[i][1] = k][2]]

\* ids whose canonical text differs between two observations (or that exist in one only)
DiffIds(a, b) ==
  LET fa == PairsToFn(a)  fb == PairsToFn(b) IN
  {x \in DOMAIN fa \cup DOMAIN fb : x \notin DOMAIN fa \/ x \notin DOMAIN fb \/ fa[x] # fb[x]}

First(S) == IF S = {} THEN "" ELSE CHOOSE x \in S : \A y \in S : TRUE

Agree(e) ==
  UNION {
     LET a == e.vals[1]  b == e.vals[j]
         ds == DiffIds(a.state, b.state) IN
        (IF ds # {} THEN {V(e.prop, e.clause, e.k \o "/state", e.labels[j] \o ":" \o First(ds))} ELSE {})
     \cup (IF a.reports # b.reports
           THEN {V(e.prop, IF e.k = "step" /\ e.prop = "C01" THEN "same_events" ELSE e.clause, e.k \o "/reports", e.labels[j])} ELSE {})
     : j \in 2..Len(e.vals)}

(* C15: the batch runner covers exactly [start, end): ceil((end - start) / dt) steps, and refuses to step beyond *)
CeilDiv(a, b) == IF a <= 0 THEN 0 ELSE (a + b - 1) \div b
RunnerOK(e) ==
     (IF e.steps_run # CeilDiv(e.end - e.start, e.dt) THEN {V("C15", "runner_covers_the_interval", "step_count", e.id)} ELSE {})
  \cup (IF e.final_time # e.start + e.steps_run * e.dt THEN {V("C15", "tick_advances_one_step", "runner", e.id)} ELSE {})
  \cup (IF ~e.refused_beyond_end THEN {V("C15", "runner_refuses_beyond_end", "step", e.id)} ELSE {})
  \cup (IF ~e.stepped_before_end THEN {V("C15", "runner_covers_the_interval", "refused_too_early", e.id)} ELSE {})

Key(v) == <<v[1], v[2], v[3]>>
Merge(reg, vs, ln) ==
  LET keys == {Key(v) : v \in vs} IN
  [k \in DOMAIN reg \cup keys |->
     IF k \in DOMAIN reg THEN (IF k \in keys THEN [reg[k] EXCEPT !.n = @ + 1] ELSE reg[k])
     ELSE [line |-> ln, w |-> (CHOOSE v \in vs : Key(v) = k)[4], n |-> 1]]

TraceInit == l = 1 /\ TLCSet(1, <<>>) /\ TLCSet(3, {}) /\ TLCSet(4, 0)
TraceNext ==
  /\ l <= Len(TLog)
  /\ LET e == TLog[l]
         vs == IF e.k = "runner" THEN RunnerOK(e) ELSE Agree(e)
     IN /\ IF vs = {} THEN TRUE ELSE TLCSet(1, Merge(TLCGet(1), vs, l))
        /\ TLCSet(3, TLCGet(3) \cup {<<e.k, IF e.k = "runner" THEN "" ELSE ToString(Len(e.vals)), "", "">>})
        /\ TLCSet(4, l)
  /\ l' = l + 1
TraceSpec == TraceInit /\ [][TraceNext]_l

RegToSet(reg) == {[p |-> k[1], c |-> k[2], s |-> k[3], line |-> reg[k].line, w |-> reg[k].w, n |-> reg[k].n] : k \in DOMAIN reg}
Done ==
  /\ PrintT(<<"VIOL", ToJson(RegToSet(TLCGet(1)))>>)
  /\ PrintT(<<"DIVG", ToJson({})>>)
  /\ PrintT(<<"COVR", ToJson(TLCGet(3))>>)
  /\ PrintT(<<"LINES", TLCGet(4), Len(TLog)>>)
  /\ TLCGet(4) = Len(TLog)
=============================================================================
