------------------------------ MODULE HiveShift ------------------------------
(***************************************************************************)
(* C20 (model part) - the human driver on / off machine.                   *)
(*                                                                         *)
(* Transcription of time_helpers.time_in_range (start inclusive, end       *)
(* exclusive, wrap-around) and of HumanAvailable.update /                  *)
(* HumanUnavailable.update (re-evaluated at the start of every step; an    *)
(* "off" / "on" event is filed exactly when the driver state is replaced), *)
(* on a Day of a few time units: every shift (start, end), step length and *)
(* start offset, over several days.  The property compares with an         *)
(* independent declarative definition of the shift as the cyclic interval  *)
(* of length (end - start) mod Day that starts at `start`.  The same       *)
(* statement is what the trace monitor (HiveProps!C20_Drivers) evaluates   *)
(* on the real code.                                                       *)
(***************************************************************************)
EXTENDS Naturals, Integers, FiniteSets, TLC

CONSTANTS Day, MaxDt, Days
VARIABLES s, e, dt, t, tu, avail, was, event
vars == <<s, e, dt, t, tu, avail, was, event>>

(* time_in_range(start, end, x) *)
TimeInRange(a, b, x) == IF a <= b THEN a <= x /\ x < b ELSE a <= x \/ x < b

Init ==
  /\ s \in 0..(Day - 1) /\ e \in 0..(Day - 1) /\ dt \in 1..MaxDt /\ t \in 0..(Day - 1)
  /\ tu = -1                                                   \* no driver update yet
  /\ avail = FALSE /\ was = FALSE /\ event = "none"            \* vehicles are loaded with HumanUnavailable

(* perform_driver_state_updates at the start of the step that begins at t; then the step passes *)
Step ==
  /\ t < Day * Days
  /\ LET on == TimeInRange(s, e, t % Day) IN
       /\ was' = avail
       /\ avail' = on
       /\ event' = IF avail /\ ~on THEN "off" ELSE IF ~avail /\ on THEN "on" ELSE "none"
  /\ tu' = t /\ t' = t + dt
  /\ UNCHANGED <<s, e, dt>>

Spec == Init /\ [][Step]_vars

(* declarative: the shift is the cyclic interval of length (e - s) mod Day that starts at s *)
ShiftSet == {(s + k) % Day : k \in 0..(((e - s + Day) % Day) - 1)}

AvailableIffInShift == tu >= 0 => (avail = ((tu % Day) \in ShiftSet))
EventIffFlip == tu >= 0 => /\ (event = "on") = (~was /\ avail)
                           /\ (event = "off") = (was /\ ~avail)
=============================================================================
