----------------------------- MODULE HiveTraverse -----------------------------
(***************************************************************************)
(* C06 (model part) - transcription of routetraversal.traverse and         *)
(* linktraversal.traverse_up_to over abstract links with whole-second      *)
(* travel times.  A link is [id, tt, deg]: tt its whole-second travel      *)
(* time, deg = TRUE for a link whose start equals its end (never driven).  *)
(* Every route of up to MaxLen links with times 0..MaxTT and every step    *)
(* length 1..MaxDt is an initial state; the property is the algebra the    *)
(* trace monitor (HiveProps!C06_Move) checks on the real code:             *)
(*   experienced o remaining = route (at most the boundary link split),    *)
(*   the links driven entirely fit into the step, nothing is entered once  *)
(*   the time is used up, and a non-degenerate route makes progress.       *)
(***************************************************************************)
EXTENDS Naturals, Sequences, FiniteSets, TLC, Json

CONSTANTS MaxLen, MaxTT, MaxDt, Export
VARIABLES route, dt, closed      \* closed: the route's first start is its last end (a loop, or nothing but degenerate links)
vars == <<route, dt, closed>>

Link == [id : 1..MaxLen, tt : 0..MaxTT, deg : BOOLEAN]
Routes == UNION {{r \in [1..n -> Link] : \A i \in 1..n : r[i].id = i} : n \in 1..MaxLen}

NonDegCount(r) == Cardinality({i \in DOMAIN r : ~r[i].deg})
Init == /\ route \in Routes /\ dt \in 1..MaxDt /\ closed \in BOOLEAN
        /\ (NonDegCount(route) = 0 => closed)          \* nothing but degenerate links: necessarily closed
        /\ (closed => NonDegCount(route) # 1)          \* one real link cannot close on itself (it would be degenerate)
Next == UNCHANGED vars
Spec == Init /\ [][Next]_vars

(* the fold of traverse(): acc = [left, exp, rem]; exp/rem hold <<link id, part>> with part in {"whole","head","tail"} *)
StepLink(acc, lk) ==
  IF acc.left = 0 THEN [acc EXCEPT !.rem = Append(@, <<lk.id, "whole">>)]            \* no_time_left: not traversed
  ELSE IF lk.deg THEN acc                                                           \* start = end: "already done!"
  ELSE IF lk.tt <= acc.left THEN [acc EXCEPT !.left = @ - lk.tt, !.exp = Append(@, <<lk.id, "whole">>)]
  ELSE [acc EXCEPT !.left = 0, !.exp = Append(@, <<lk.id, "head">>), !.rem = Append(@, <<lk.id, "tail">>)]

RECURSIVE Fold(_, _, _)
Fold(acc, r, i) == IF i > Len(r) THEN acc ELSE Fold(StepLink(acc, r[i]), r, i + 1)
\* "if head.start == last.end: the route is consumed" - a closed route is dropped without being driven
Traverse(r, d) == IF closed THEN [left |-> d, exp |-> <<>>, rem |-> <<>>] ELSE Fold([left |-> d, exp |-> <<>>, rem |-> <<>>], r, 1)

Ids(s) == [i \in DOMAIN s |-> s[i][1]]
NonDeg(r) == SelectSeq(r, LAMBDA lk : ~lk.deg)
Sum(r, S) == LET RECURSIVE G(_)
                 G(Q) == IF Q = {} THEN 0 ELSE LET q == CHOOSE q \in Q : TRUE IN r[q].tt + G(Q \ {q})
             IN G(S)

TraverseOK ==
  LET R == Traverse(route, dt)
      whole == {R.exp[i][1] : i \in {i \in DOMAIN R.exp : R.exp[i][2] = "whole"}}
      split == {R.exp[i][1] : i \in {i \in DOMAIN R.exp : R.exp[i][2] = "head"}}
      joined == Ids(R.exp) \o Ids(IF split = {} THEN R.rem ELSE Tail(R.rem))
  IN closed \/
  \* same links in the same order; degenerate links that were skipped while time remained simply disappear
  /\ \A i \in DOMAIN joined : i > 1 => joined[i - 1] < joined[i]
  /\ {joined[i] : i \in DOMAIN joined} \cup {lk.id : lk \in {route[i] : i \in {i \in DOMAIN route : route[i].deg}}} = {route[i].id : i \in DOMAIN route}
  \* at most one link is split, and it is the last experienced = first remaining
  /\ Cardinality(split) <= 1
  /\ split # {} => (R.exp[Len(R.exp)][2] = "head" /\ R.rem # <<>> /\ R.rem[1] = <<R.exp[Len(R.exp)][1], "tail">>)
  \* no faster than the links allow
  /\ Sum(route, whole) <= dt
  /\ split # {} => Sum(route, whole) + route[CHOOSE x \in split : TRUE].tt > dt
  \* nothing is entered after the time is used up
  /\ \A i \in DOMAIN R.rem : R.rem[i][2] = "whole" => ~\E j \in DOMAIN R.exp : R.exp[j][1] > R.rem[i][1]
  \* progress: a route with a non-degenerate first link to drive is never left untouched
  /\ (NonDeg(route) # <<>>) => R.exp # <<>>
\* with Export = TRUE every (route, step length) is printed with the model's result, to be executed in the real traverse()
Exported ==
  ~Export \/ PrintT(<<"TRAV", ToJson([r |-> route, d |-> dt, closed |-> closed, exp |-> Traverse(route, dt).exp, rem |-> Traverse(route, dt).rem])>>)
=============================================================================
