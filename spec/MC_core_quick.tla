--------------------------- MODULE MC_core_quick ---------------------------
(* 2 vehicles contending for 1 plug / 1 stall / 1 request; full adversarial instruction set *)
EXTENDS HiveModel

mcVehicles == {"v1", "v2"}
mcVRank == [v \in mcVehicles |-> IF v = "v1" THEN 1 ELSE 2]
mcVDef == [v \in mcVehicles |-> [pos |-> "c1", fleets |-> {}, kind |-> "electric", pool |-> FALSE, en |-> 2]]
mcStDef == [s \in {"s1"} |-> [pos |-> "c2", fleets |-> {}, pl |-> [p \in {"dcfc"} |-> [tot |-> 1, kind |-> "electric"]]]]
mcBsDef == [b \in {"b1"} |-> [pos |-> "c3", fleets |-> {}, tot |-> 1, st |-> "s1"]]
mcRqDef == [r \in {"r1"} |-> [pos |-> "c1", dpos |-> "c3", fleets |-> {}, pool |-> FALSE]]
mcCells == {"c1", "c2", "c3"}
mcKinds == {"Idle", "OutOfService", "Reposition", "DispatchTrip", "DispatchStation", "ChargeStation",
            "DispatchBase", "ReserveBase", "ChargeBase"}
mcView == <<veh, st, bs, req, seen, now, ph, todo, order>>
=============================================================================
