------------------------------ MODULE HiveMatch ------------------------------
(***************************************************************************)
(* C12 - the built-in trip dispatcher returns a valid minimum-cost         *)
(* matching.  Declarative definition, evaluated by TLC                     *)
(*  (a) on records of calls of the REAL Dispatcher.generate_instructions   *)
(*      (one record per call and fleet: the eligibility facts computed     *)
(*      independently of the dispatcher, the grid-distance matrix computed *)
(*      with h3 directly, and the pairs the dispatcher returned), and      *)
(*  (b) on itself: for every small cost matrix the dynamic programme       *)
(*      MinCost equals the brute-force minimum over all injections         *)
(*      (SelfSpec), so the oracle is not taken on trust.                   *)
(***************************************************************************)
EXTENDS Naturals, Integers, Sequences, FiniteSets, TLC, SequencesExt

-----------------------------------------------------------------------------
(* minimum total cost of matching every element of the smaller side; d[i][j] with i in 1..n rows, j in 1..m columns *)
RECURSIVE Best(_, _, _, _)
\* rows i..n still to place, `used` columns taken; rows <= columns
Best(d, i, n, used) ==
  IF i > n THEN 0
  ELSE LET cols == {j \in 1..Len(d[1]) : j \notin used}
           opts == {d[i][j] + Best(d, i + 1, n, used \cup {j}) : j \in cols}
       IN CHOOSE x \in opts : \A y \in opts : x <= y

Transpose(d) == [j \in 1..Len(d[1]) |-> [i \in 1..Len(d) |-> d[i][j]]]

MinCost(d) ==
  IF d = <<>> \/ d[1] = <<>> THEN 0
  ELSE IF Len(d) <= Len(d[1]) THEN Best(d, 1, Len(d), {}) ELSE Best(Transpose(d), 1, Len(d[1]), {})

-----------------------------------------------------------------------------
(* (a) records of real dispatcher calls *)
V(p, c, sig, w) == <<p, c, sig, w>>
Idx(sq, P(_)) == {i \in DOMAIN sq : P(sq[i])}

DispatchOK(e) ==
  LET E == Idx(e.veh, LAMBDA v : v.dispatchable /\ v.avail /\ v.range_ok /\ v.member)   \* eligible vehicles (row indices)
      O == Idx(e.req, LAMBDA r : ~r.assigned /\ r.grants)                               \* open requests (column indices)
      vix(id) == CHOOSE i \in DOMAIN e.veh : e.veh[i].id = id
      rix(id) == CHOOSE j \in DOMAIN e.req : e.req[j].id = id
      P == {<<vix(e.pairs[k][1]), rix(e.pairs[k][2])>> : k \in DOMAIN e.pairs}
      known == \A k \in DOMAIN e.pairs : (\E i \in DOMAIN e.veh : e.veh[i].id = e.pairs[k][1])
                                          /\ (\E j \in DOMAIN e.req : e.req[j].id = e.pairs[k][2])
      Es == SetToSortSeq(E, LAMBDA a, b : a < b)      \* (CommunityModules, evaluated in Java: records with a thousand requests)
      Os == SetToSortSeq(O, LAMBDA a, b : a < b)
      sub == [a \in DOMAIN Es |-> [b \in DOMAIN Os |-> e.dist[Es[a]][Os[b]]]]
      cost == LET RECURSIVE S(_)
                  S(Q) == IF Q = {} THEN 0 ELSE LET q == CHOOSE q \in Q : TRUE IN e.dist[q[1]][q[2]] + S(Q \ {q})
              IN S(P)
      why(i) == IF ~e.veh[i].member THEN (IF e.veh[i].public THEN "fleetless_vehicle" ELSE "other_fleet")
                ELSE IF ~e.veh[i].avail THEN "off_shift" ELSE IF ~e.veh[i].dispatchable THEN "activity" ELSE "range"
  IN
  IF ~known THEN {V("C12", "pairs_name_known_entities", "unknown_id", e.id)}
  ELSE
     {V("C12", "vehicles_eligible", why(p[1]), e.veh[p[1]].id) : p \in {p \in P : p[1] \notin E}}
  \cup {V("C12", "requests_open", IF e.req[p[2]].assigned THEN "already_assigned" ELSE "other_fleet", e.req[p[2]].id) : p \in {p \in P : p[2] \notin O}}
  \cup (IF Cardinality(P) # Len(e.pairs) \/ Cardinality({p[1] : p \in P}) # Cardinality(P) \/ Cardinality({p[2] : p \in P}) # Cardinality(P)
        THEN {V("C12", "pairs_distinct", "one_to_one", e.id)} ELSE {})
  \cup (IF \A p \in P : p[1] \in E /\ p[2] \in O
        THEN (IF Cardinality(P) # (IF Cardinality(E) <= Cardinality(O) THEN Cardinality(E) ELSE Cardinality(O))
              THEN {V("C12", "matching_size", IF Cardinality(P) < Cardinality(E) THEN "too_few" ELSE "too_many", e.id)}
              ELSE IF cost # MinCost(sub) THEN {V("C12", "minimum_total_distance", "not_minimal", e.id)} ELSE {})
        ELSE {})

=============================================================================
