---- MODULE MC_index_quick2 ----
EXTENDS HiveIndex
mcIds == [k \in Kinds |-> CASE k = "veh" -> {"v1"} [] k = "req" -> {} [] k = "st" -> {"s1", "s2"} [] OTHER -> {"b1", "b2"}]
mcCells == {"c1", "c2", "c3"}
mcSearchOf == [c \in mcCells |-> IF c \in {"c1", "c2"} THEN "S1" ELSE "S2"]
====
