---- MODULE MC_index_selftest ----
EXTENDS HiveIndex
mcIds == [k \in Kinds |-> CASE k = "veh" -> {"v1"} [] k = "req" -> {"r1"} [] k = "st" -> {"s1"} [] OTHER -> {"b1"}]
mcCells == {"c1", "c2", "c3"}
mcSearchOf == [c \in mcCells |-> IF c \in {"c1", "c2"} THEN "S1" ELSE "S2"]
====
