------------------------------ MODULE HiveIndex ------------------------------
(***************************************************************************)
(* C08 - the location indexes always agree with the entities.              *)
(*                                                                         *)
(* Transcription of simulation_state_ops.add_* / modify_* / remove_* and   *)
(* DictOps.add_to_collection_dict / remove_from_collection_dict /          *)
(* update_entity_dictionaries for the four entity kinds, over a handful of *)
(* cells in two search cells.  `ent[k]` maps the ids present to their      *)
(* cell, `loc[k]` is the exact-cell index, `srch[k]` the coarse one.       *)
(* TLC explores every sequence of operations; the property is IndexExact.  *)
(* With Export = TRUE every explored transition is printed, and the        *)
(* harness replays each one through the real functions with concrete       *)
(* geoids and compares all eight maps (hv/checks/c08.py).                  *)
(***************************************************************************)
EXTENDS Naturals, FiniteSets, TLC, Json

CONSTANTS
  Ids,         \* [kind -> set of ids] for kind in {"veh", "req", "st", "bs"}
  Cells,       \* exact cells
  SearchOf,    \* [Cells -> search cells]
  Export,      \* TRUE: print every transition
  FixReAdd     \* TRUE: the tree with the repair of finding F19 (an id in use that is added again is REPLACED: its old entries
               \* leave the indexes; a station / base in use is not accepted at another location).  FALSE: the tree before it

Kinds == {"veh", "req", "st", "bs"}
Movable == {"veh", "req"}          \* modify_station_safe / modify_base_safe reject a changed location

VARIABLES ent, loc, srch, last
vars == <<ent, loc, srch, last>>
view == <<ent, loc, srch>>

(* DictOps.add_to_collection_dict *)
AddColl(m, c, x) == [k \in DOMAIN m \cup {c} |-> IF k = c THEN (IF c \in DOMAIN m THEN m[c] ELSE {}) \cup {x} ELSE m[k]]
(* DictOps.remove_from_collection_dict: the cell is deleted when it becomes empty *)
RemColl(m, c, x) ==
  LET rest == (IF c \in DOMAIN m THEN m[c] ELSE {}) \ {x} IN
  IF rest = {} THEN [k \in DOMAIN m \ {c} |-> m[k]]
  ELSE [k \in DOMAIN m \cup {c} |-> IF k = c THEN rest ELSE m[k]]

Init ==
  /\ ent = [k \in Kinds |-> <<>>]
  /\ loc = [k \in Kinds |-> <<>>]
  /\ srch = [k \in Kinds |-> <<>>]
  /\ last = [op |-> "init", k |-> "", id |-> "", c |-> ""]

(* add_<kind>_safe; loaders and UpdateRequestsFromFile only add ids that are not present *)
Add(k, x, c) ==
  /\ x \notin DOMAIN ent[k]
  /\ ent' = [ent EXCEPT ![k] = [y \in DOMAIN @ \cup {x} |-> IF y = x THEN c ELSE @[y]]]
  /\ loc' = [loc EXCEPT ![k] = AddColl(@, c, x)]
  /\ srch' = [srch EXCEPT ![k] = AddColl(@, SearchOf[c], x)]
  /\ last' = [op |-> "add", k |-> k, id |-> x, c |-> c]

(* add_<kind>_safe of an id that is PRESENT (a rider who submits a request again - from the same place or from another one -, an
   entity loaded twice).  What the code did before the repair of F19: the entity is replaced and its new cell entered in both
   indexes, the entries of the old cell stay.  After it: the old entries are taken out first (vehicles, requests); a station or
   base in use is not accepted at another location (they never move - as modify_<kind>_safe refuses it) *)
ReAdd(k, x, c) ==
  /\ x \in DOMAIN ent[k]
  /\ last' = [op |-> "add", k |-> k, id |-> x, c |-> c]
  /\ LET old == ent[k][x] IN
     IF FixReAdd /\ k \notin Movable /\ c # old THEN UNCHANGED <<ent, loc, srch>>
     ELSE /\ ent' = [ent EXCEPT ![k][x] = c]
          /\ loc' = [loc EXCEPT ![k] = AddColl(IF FixReAdd THEN RemColl(@, old, x) ELSE @, c, x)]
          /\ srch' = [srch EXCEPT ![k] = AddColl(IF FixReAdd THEN RemColl(@, SearchOf[old], x) ELSE @, SearchOf[c], x)]

(* remove_<kind>_safe *)
Remove(k, x) ==
  /\ x \in DOMAIN ent[k]
  /\ LET c == ent[k][x] IN
       /\ ent' = [ent EXCEPT ![k] = [y \in DOMAIN @ \ {x} |-> @[y]]]
       /\ loc' = [loc EXCEPT ![k] = RemColl(@, c, x)]
       /\ srch' = [srch EXCEPT ![k] = RemColl(@, SearchOf[c], x)]
  /\ last' = [op |-> "remove", k |-> k, id |-> x, c |-> ""]

(* modify_<kind>_safe with a possibly different location: DictOps.update_entity_dictionaries *)
Modify(k, x, c) ==
  /\ x \in DOMAIN ent[k]
  /\ last' = [op |-> "modify", k |-> k, id |-> x, c |-> c]
  /\ LET old == ent[k][x] IN
     IF k \notin Movable /\ c # old THEN UNCHANGED <<ent, loc, srch>>          \* refused: stations and bases never move
     ELSE IF c = old THEN UNCHANGED <<ent, loc, srch>>                        \* entity replaced, indexes untouched
     ELSE /\ ent' = [ent EXCEPT ![k][x] = c]
          /\ loc' = [loc EXCEPT ![k] = AddColl(RemColl(@, old, x), c, x)]
          /\ srch' = IF SearchOf[old] = SearchOf[c] THEN srch
                     ELSE [srch EXCEPT ![k] = AddColl(RemColl(@, SearchOf[old], x), SearchOf[c], x)]

Next ==
  \E k \in Kinds : \E x \in Ids[k] :
     \/ \E c \in Cells : Add(k, x, c) \/ Modify(k, x, c) \/ ReAdd(k, x, c)
     \/ Remove(k, x)

Spec == Init /\ [][Next]_vars

-----------------------------------------------------------------------------
(* the property: each index is exactly the inverse of the positions, with no empty, stale or foreign entry *)
Inverse(f, G(_)) == LET img == {G(f[x]) : x \in DOMAIN f} IN [c \in img |-> {x \in DOMAIN f : G(f[x]) = c}]

IndexExactFor(pos, l, s) ==
  /\ l = Inverse(pos, LAMBDA c : c)
  /\ s = Inverse(pos, LAMBDA c : SearchOf[c])

IndexExact == \A k \in Kinds : IndexExactFor(ent[k], loc[k], srch[k])

\* stations and bases never change location
Immobile == [][\A k \in Kinds \ Movable : \A x \in DOMAIN ent[k] \cap DOMAIN ent'[k] : ent'[k][x] = ent[k][x]]_vars

Edge == ~Export \/ PrintT(<<"EDGE", ToJson([s |-> ent, op |-> last', t |-> ent'])>>)
=============================================================================
