------------------------------ MODULE HiveControl ------------------------------
(***************************************************************************)
(* The built-in controller: driver policies and the charging fleet manager.*)
(*                                                                         *)
(* Not one of the listed properties - this module grows the specification  *)
(* over the part of hive that decides WHAT the vehicles are told to do     *)
(* when no external controller is attached:                                *)
(*   - AutonomousAvailable / HumanAvailable / HumanUnavailable             *)
(*     .generate_instruction (driver_state/..., driver_instruction_ops.py) *)
(*   - ChargingFleetManager.generate_instructions                          *)
(* It is a decision table over facts of one vehicle.  `Expected(F)` gives  *)
(* the instruction the driver must produce (or the set of acceptable ones  *)
(* where the code searches for a station); `DriverOK(F, obs)` compares it  *)
(* with what the real driver put on top of the vehicle's instruction stack *)
(* (observed through the instruction_stacks hook).  The facts are logged   *)
(* by hv/policy.py from the real objects; the leaves (state of charge,     *)
(* remaining range, distances, charger validity) come from the code's own  *)
(* functions, the DECISIONS are this module's.                             *)
(*                                                                         *)
(* Used two ways:                                                          *)
(*  - TableSpec: TLC enumerates every combination of the boolean facts     *)
(*    (the whole decision table), checks sanity laws of the table, and     *)
(*    exports the rows; hv/policy.py builds each row with real objects and *)
(*    asks the real driver (model -> code).                                *)
(*  - TraceSpec: every step of a recorded run is checked (code -> model).  *)
(* A mismatch is reported as a conformance DIVERGENCE of the run, never as *)
(* a violation of a listed property.                                       *)
(***************************************************************************)
EXTENDS Naturals, Integers, Sequences, FiniteSets, TLC, Json, IOUtils

Acts == {"Idle", "Repositioning", "DispatchTrip", "ServicingTrip", "DispatchStation", "ChargingStation",
         "ChargeQueueing", "DispatchBase", "ReserveBase", "ChargingBase", "OutOfService",
         "DispatchPoolingTrip", "ServicingPoolingTrip"}
Drivers == {"auto", "avail", "unavail"}

NoI == [k |-> "", tgt |-> "", plug |-> ""]
I(k, tgt, plug) == [k |-> k, tgt |-> tgt, plug |-> plug]

(* plugs: sequence of [id, rr, ir, valid]: rr = rank of the rate, ir = rank of the id; cheapest valid one *)
Cheapest(plugs) ==
  LET ok == {i \in DOMAIN plugs : plugs[i].valid} IN
  IF ok = {} THEN ""
  ELSE plugs[CHOOSE i \in ok : \A j \in ok :
              plugs[i].rr < plugs[j].rr \/ (plugs[i].rr = plugs[j].rr /\ plugs[i].ir <= plugs[j].ir)].id

(* hexes: sequence of [n, hr, link]: n requests in the search hex, hr = rank of the hex id; densest, ties to larger id *)
BestHexLink(hexes) ==
  IF hexes = <<>> THEN ""
  ELSE hexes[CHOOSE i \in DOMAIN hexes : \A j \in DOMAIN hexes :
              hexes[i].n > hexes[j].n \/ (hexes[i].n = hexes[j].n /\ hexes[i].hr >= hexes[j].hr)].link

(* ----- the pieces of driver_instruction_ops.py ----- *)
IdleIfAtLimit(F) == IF F.soc_lim THEN {I("Idle", "", "")} ELSE {NoI}

LookForRequests(F) ==
  LET lk == BestHexLink(F.hexes) IN IF lk = "" THEN {NoI} ELSE {I("Reposition", lk, "")}

\* an autonomous vehicle waiting at a base plugs in at the base's station, cheapest (slowest) valid plug
AvChargeBase(F) ==
  IF ~F.sbase_ok \/ F.sbase_st = "" \/ F.full \/ ~F.sbase_st_ok THEN {NoI}
  ELSE LET p == Cheapest(F.sbase_plugs) IN IF p = "" THEN {NoI} ELSE {I("ChargeBase", F.sbase, p)}

\* ... and returns to the nearest base it may use after idling too long (`near`: acceptable nearest bases, see policy.py)
AvDispatchBase(F) ==
  IF ~F.idle_over THEN {NoI}
  ELSE IF F.bases_any = {} THEN {NoI}
  ELSE {I("DispatchBase", b, "") : b \in F.bases_near} \cup (IF F.bases_must THEN {} ELSE {NoI})

(* ----- the station the NEAREST_SHORTEST_QUEUE search picks (instruct_vehicles_to_dispatch_to_station, H3Ops.nearest_entity, *)
(* assignment_ops.nearest_shortest_queue_ranking).  cands: the stations the vehicle may use that have a usable on-shift   *)
(* plug: [id, k, ord, plugs], plugs: [id, ir, num, den] with metric = num / den = grid distance * (1 + waiting/installed) *)
MLess(a, b) == a.num * b.den < b.num * a.den
MEq(a, b) == a.num * b.den = b.num * a.den
\* the ranking keeps the previous plug only when it is STRICTLY better: among equals the last plug id wins
BestPlug(plugs) ==
  CHOOSE i \in DOMAIN plugs : \A j \in DOMAIN plugs :
     MLess(plugs[i], plugs[j]) \/ (MEq(plugs[i], plugs[j]) /\ plugs[i].ir >= plugs[j].ir)
\* the ring search stops at the smallest disk that holds a candidate and keeps the first of the best ones it meets
ChosenStation(cands) ==
  LET C == {cands[i] : i \in DOMAIN cands}
      kmin == CHOOSE k \in {c.k : c \in C} : \A c \in C : k <= c.k
      ring == {c \in C : c.k = kmin}
      m(c) == c.plugs[BestPlug(c.plugs)]
  IN CHOOSE c \in ring : \A d \in ring : MLess(m(c), m(d)) \/ (MEq(m(c), m(d)) /\ c.ord <= d.ord)
StationChoice(cands) ==
  IF cands = <<>> THEN NoI
  ELSE LET c == ChosenStation(cands) IN I("DispatchStation", c.id, c.plugs[BestPlug(c.plugs)].id)

\* the station search of instruct_vehicles_to_dispatch_to_station: some station the vehicle may use, with a plug it can
\* use; nothing when no such station is known; (which one is ranked by C12-like distance functions, not decided here)
StationSearch(F) ==
  IF "choice" \in DOMAIN F THEN {StationChoice(F.choice)}        \* the search type this module knows exactly
  ELSE {I("DispatchStation", s[1], s[2]) : s \in F.stations} \cup (IF F.stations_must THEN {} ELSE {NoI})

HumanChargeAtHome(F) ==
  IF F.home_st = "" \/ ~F.home_st_ok \/ F.full THEN {NoI}
  ELSE LET p == Cheapest(F.home_plugs) IN IF p = "" THEN {NoI} ELSE {I("ChargeBase", F.home, p)}

HumanGoHome(F) ==
  IF F.range_zero THEN {NoI}
  ELSE IF F.cant_home \/ (F.home_st = "" /\ F.electric) THEN StationSearch(F)
  ELSE {I("DispatchBase", F.home, "")}

(* ----- the three driver states ----- *)
Auto(F) ==
  CASE F.act = "ReserveBase" -> AvChargeBase(F)
    [] F.act = "Idle" -> AvDispatchBase(F)
    [] F.act = "ChargingStation" -> IdleIfAtLimit(F)
    [] OTHER -> {NoI}

Avail(F) ==
  CASE F.act \in {"OutOfService", "ServicingTrip"} -> {NoI}
    [] F.act \in {"ReserveBase", "ChargingBase"} -> LookForRequests(F)
    [] F.act = "ChargingStation" -> IdleIfAtLimit(F)
    [] F.act = "Idle" -> IF F.idle_over THEN LookForRequests(F) ELSE {NoI}
    [] OTHER -> {NoI}

Unavail(F) ==
  IF ~F.home_ok THEN {NoI}
  ELSE IF F.act \in {"OutOfService", "ServicingTrip"} THEN {NoI}
  ELSE IF ~F.at_home THEN
         (IF F.act = "DispatchBase" THEN {NoI}
          ELSE IF F.act \in {"DispatchStation", "ChargingStation"}
               THEN (IF F.below_target THEN {NoI} ELSE {I("DispatchBase", F.home, "")})
          ELSE HumanGoHome(F))
  ELSE IF ~F.soc_lim /\ F.home_st # "" /\ F.act # "ChargingBase" THEN HumanChargeAtHome(F)
  ELSE IF F.act = "Idle" THEN {I("ReserveBase", F.home, "")}
  ELSE {NoI}

Expected(F) == CASE F.drv = "auto" -> Auto(F) [] F.drv = "avail" -> Avail(F) [] OTHER -> Unavail(F)

DriverOK(F, obs) == obs \in Expected(F)

(* ----- ChargingFleetManager ----- *)
(* c: [v, proper, le_soft, near_ok, le_hard, reach]; emitted: set of vehicle ids it instructed                      *)
(*  - only Idle / Repositioning vehicles at or below the soft range threshold are sent to charge;                    *)
(*  - among them only those for which  threshold + distance to nearest usable station >= remaining range  (near_ok); *)
(*  - a vehicle at or below the hard threshold with a usable station in reach is sent (unless the search stopped     *)
(*    early: `complete` is false when some candidate has no station it may use at all, where the code breaks off).   *)
CfmOK(cs, emitted, complete) ==
     {<<"only_low_range_idle_vehicles", c.v>> : c \in {c \in cs : c.v \in emitted /\ ~(c.proper /\ c.le_soft /\ c.near_ok)}}
  \cup {<<"unknown_vehicle", v>> : v \in emitted \ {c.v : c \in cs}}
  \cup (IF complete THEN {<<"low_vehicle_sent_to_charge", c.v>> : c \in {c \in cs : c.proper /\ c.le_hard /\ c.reach /\ c.v \notin emitted}} ELSE {})

-----------------------------------------------------------------------------
(* Table mode: every combination of the decision facts, with small stand-ins for the data-valued ones *)
VARIABLES F, l

Bool == BOOLEAN
PlugSets == { <<>>,
              <<[id |-> "p1", rr |-> 1, ir |-> 1, valid |-> TRUE]>>,
              <<[id |-> "p1", rr |-> 2, ir |-> 1, valid |-> TRUE], [id |-> "p2", rr |-> 1, ir |-> 2, valid |-> TRUE]>>,
              <<[id |-> "p1", rr |-> 1, ir |-> 1, valid |-> FALSE], [id |-> "p2", rr |-> 2, ir |-> 2, valid |-> TRUE]>>,
              <<[id |-> "p1", rr |-> 1, ir |-> 1, valid |-> FALSE]>> }
HexSets == { <<>>, <<[n |-> 1, hr |-> 1, link |-> "h1"]>>,
             <<[n |-> 1, hr |-> 1, link |-> "h1"], [n |-> 1, hr |-> 2, link |-> "h2"]>>,
             <<[n |-> 2, hr |-> 1, link |-> "h1"], [n |-> 1, hr |-> 2, link |-> "h2"]>> }

\* facts a driver kind does not look at keep a default value, so the table is the union of three small tables
D0 == [drv |-> "auto", act |-> "Idle", idle_over |-> FALSE, soc_lim |-> FALSE, full |-> FALSE,
       sbase |-> "", sbase_ok |-> FALSE, sbase_st |-> "", sbase_st_ok |-> FALSE, sbase_plugs |-> <<>>,
       home |-> "", home_ok |-> FALSE, at_home |-> FALSE, home_st |-> "", home_st_ok |-> FALSE, home_plugs |-> <<>>,
       below_target |-> FALSE, range_zero |-> FALSE, cant_home |-> FALSE, electric |-> TRUE,
       bases_any |-> {}, bases_near |-> {}, bases_must |-> FALSE, stations |-> {}, stations_must |-> FALSE, hexes |-> <<>>]

AutoRow(F0) ==
  \E a \in Acts, io \in Bool, sl \in Bool, fu \in Bool, bo \in Bool, ss \in {"", "s1"}, so \in Bool, ps \in PlugSets,
     ba \in {{}, {"b1"}, {"b1", "b2"}} : F0 =
   [D0 EXCEPT !.act = a, !.idle_over = io, !.soc_lim = sl, !.full = fu, !.sbase = "b1", !.sbase_ok = bo,
              !.sbase_st = ss, !.sbase_st_ok = so, !.sbase_plugs = ps, !.bases_any = ba, !.bases_near = ba, !.bases_must = (ba # {})]
AvailRow(F0) ==
  \E a \in Acts, io \in Bool, sl \in Bool, hx \in HexSets : F0 =
   [D0 EXCEPT !.drv = "avail", !.act = a, !.idle_over = io, !.soc_lim = sl, !.home = "b1", !.home_ok = TRUE, !.hexes = hx]
UnavailRow(F0) ==
  \E a \in Acts, sl \in Bool, fu \in Bool, ho \in Bool, ah \in Bool, hs \in {"", "s1"}, so \in Bool, ps \in PlugSets,
     bt \in Bool, rz \in Bool, ch \in Bool, el \in Bool, st \in {{}, {<<"s2", "p1">>}}, sm \in Bool : F0 =
   [D0 EXCEPT !.drv = "unavail", !.act = a, !.soc_lim = sl, !.full = fu, !.home = "b1", !.home_ok = ho, !.at_home = ah,
              !.home_st = hs, !.home_st_ok = so, !.home_plugs = ps, !.below_target = bt, !.range_zero = rz,
              !.cant_home = ch, !.electric = el, !.stations = st, !.stations_must = (sm /\ st # {})]

\* rows that cannot arise are left out: the facts the harness logs are consistent with each other
Consistent(r) ==
  /\ (r.full => r.soc_lim)
  /\ (r.idle_over => r.act = "Idle")
  /\ (~r.home_ok => ~r.at_home /\ r.home_st = "" /\ ~r.cant_home)
  /\ (r.home_st = "" => ~r.home_st_ok /\ r.home_plugs = <<>>) /\ (~r.home_st_ok => r.home_plugs = <<>>)
  /\ (r.sbase_st = "" => ~r.sbase_st_ok /\ r.sbase_plugs = <<>>) /\ (~r.sbase_st_ok => r.sbase_plugs = <<>>)
  /\ (~r.sbase_ok => r.sbase_st = "")
  /\ (r.act \notin {"ReserveBase", "ChargingBase"} => ~r.sbase_ok)
  /\ (r.range_zero => ~r.soc_lim /\ ~r.full)
  /\ (r.at_home => (r.cant_home <=> r.range_zero))            \* no distance to cover: out of reach only with no range at all
  /\ (~r.at_home /\ r.range_zero /\ r.home_ok => r.cant_home)

TableInit == (AutoRow(F) \/ AvailRow(F) \/ UnavailRow(F)) /\ Consistent(F) /\ l = 0
TableNext == UNCHANGED <<F, l>>
TableSpec == TableInit /\ [][TableNext]_<<F, l>>

\* every row is printed, to be built with real objects and put to the real driver (hv/policy_replay.py)
ExportedRow == PrintT(<<"ROW", ToJson(F)>>)

\* sanity laws of the table itself
T_Total == Expected(F) # {}
T_Deterministic ==   \* apart from the station / base searches the policy is a function
  (Cardinality(Expected(F)) > 1) => \E x \in Expected(F) : x.k \in {"DispatchStation", "DispatchBase"}
T_BusyNeverInstructed == F.act \in {"ServicingTrip", "OutOfService"} /\ F.drv # "auto" => Expected(F) = {NoI}
T_OffShiftNeverSeeksWork == F.drv = "unavail" => \A x \in Expected(F) : x.k \notin {"Reposition", "DispatchTrip", "Idle"}
T_OnShiftNeverGoesHome == F.drv = "avail" => \A x \in Expected(F) : x.k \notin {"DispatchBase", "ReserveBase", "ChargeBase"}
T_FullNeverPlugsIn == F.full => \A x \in Expected(F) : x.k # "ChargeBase"
T_PlugIsValid == \A x \in Expected(F) : x.k = "ChargeBase" =>
                    \E ps \in {F.sbase_plugs, F.home_plugs} : \E i \in DOMAIN ps : ps[i].id = x.plug /\ ps[i].valid

-----------------------------------------------------------------------------
(* Trace mode *)
TLog == ndJsonDeserialize(IOEnv.TRACE_FILE)
SeqToSet(s) == {s[i] : i \in DOMAIN s}
AsSet(x) == IF x = <<>> THEN {} ELSE SeqToSet(x)

\* the logged facts use sequences for sets and may omit the table-only fields
Norm(f) == [f EXCEPT !.bases_any = AsSet(@), !.bases_near = AsSet(@), !.stations = AsSet(@)]

\* the charging fleet manager sends every vehicle to the station and plug the search picks for it
CfmSent(e) ==
  IF "sent" \notin DOMAIN e.cfm THEN {}
  ELSE {<<"CTL", "charging_fleet_manager", "station_choice", x.v>> :
          x \in {x \in SeqToSet(e.cfm.sent) : I("DispatchStation", x.tgt, x.plug) # StationChoice(x.choice)}}

StepViolations(e) ==
     {<<"CTL", "driver_policy", d.drv \o "/" \o d.act \o "/" \o d.obs.k, d.v>> :
         d \in {d \in SeqToSet(e.drivers) : ~DriverOK(Norm(d), d.obs)}}
  \cup (IF e.cfm.present
        THEN {<<"CTL", "charging_fleet_manager", x[1], x[2]>> : x \in CfmOK(SeqToSet(e.cfm.veh), AsSet(e.cfm.emitted), e.cfm.complete)}
             \cup CfmSent(e)
        ELSE {})

Key(v) == <<v[1], v[2], v[3]>>
Merge(reg, vs, ln) ==
  LET keys == {Key(v) : v \in vs} IN
  [k \in DOMAIN reg \cup keys |->
     IF k \in DOMAIN reg THEN (IF k \in keys THEN [reg[k] EXCEPT !.n = @ + 1] ELSE reg[k])
     ELSE [line |-> ln, w |-> (CHOOSE v \in vs : Key(v) = k)[4], n |-> 1]]

TraceInit == l = 1 /\ F = 0 /\ TLCSet(1, <<>>) /\ TLCSet(3, {}) /\ TLCSet(4, 0)
TraceNext ==
  /\ l <= Len(TLog)
  /\ LET e == TLog[l]
         vs == StepViolations(e)
     IN /\ IF vs = {} THEN TRUE ELSE TLCSet(1, Merge(TLCGet(1), vs, l))
        /\ TLCSet(3, TLCGet(3) \cup {<<d.drv, d.act, d.obs.k, "">> : d \in SeqToSet(e.drivers)}
                               \cup (IF e.cfm.present /\ e.cfm.emitted # <<>> THEN {<<"cfm", "emitted", "", "">>} ELSE {}))
        /\ TLCSet(4, l)
  /\ l' = l + 1 /\ UNCHANGED F
TraceSpec == TraceInit /\ [][TraceNext]_<<l, F>>

RegToSet(reg) == {[p |-> k[1], c |-> k[2], s |-> k[3], line |-> reg[k].line, w |-> reg[k].w, n |-> reg[k].n] : k \in DOMAIN reg}
Done ==
  /\ PrintT(<<"VIOL", ToJson(RegToSet(TLCGet(1)))>>)
  /\ PrintT(<<"DIVG", ToJson({})>>)
  /\ PrintT(<<"COVR", ToJson(TLCGet(3))>>)
  /\ PrintT(<<"LINES", TLCGet(4), Len(TLog)>>)
  /\ TLCGet(4) = Len(TLog)
=============================================================================
