------------------------------ MODULE HiveStats ------------------------------
(***************************************************************************)
(* The time-step statistics (beyond the listed properties).                *)
(*                                                                         *)
(* At every flush hive's TimeStepStatsHandler appends one row of counts    *)
(* about the state at the end of the step (and one row per fleet, and one  *)
(* for the vehicles of no fleet); at the end of the run the rows are       *)
(* written to time_step_stats.csv / fleet_time_step_stats/*.csv.  This     *)
(* module says what a row is, as a function of                             *)
(*   - the state at the end of the step (vehicles: activity, driver        *)
(*     availability, fleets, charge level; requests: assigned or not),     *)
(*   - the reports filed during the step (moves, charge events, cancels).  *)
(* Input (one "stats" line per row, written by hv/events.py): the row as   *)
(* parsed back from the WRITTEN csv file, next to the state / reports of   *)
(* that step as recorded through the hooks.  A mismatch is a conformance   *)
(* divergence of the reporting component, never a verdict on C01-C20.      *)
(*                                                                         *)
(* e.fleet = ""      : the global row                                      *)
(* e.fleet = "none"  : the row of the vehicles that belong to no fleet     *)
(* e.fleet = f       : the row of fleet f                                  *)
(* Numbers: distance in metres, charge level in 1e-4 (0 .. 10000).         *)
(***************************************************************************)
EXTENDS Naturals, Integers, Sequences, FiniteSets, TLC

\* witnesses are printed as text: the registers are sets, and TLC cannot compare a number with a string
LOCAL SV(c, sig, w) == <<"Stats", c, sig, ToString(w)>>
LOCAL SAbs(x) == IF x < 0 THEN -x ELSE x
LOCAL SSet(s) == {s[i] : i \in DOMAIN s}
LOCAL SSum(sq, P(_), F(_)) ==
  LET RECURSIVE G(_)
      G(i) == IF i = 0 THEN 0 ELSE (IF P(sq[i]) THEN F(sq[i]) ELSE 0) + G(i - 1)
  IN G(Len(sq))
LOCAL SCount(sq, P(_)) == SSum(sq, P, LAMBDA x : 1)

\* vehicles are records [id, act, avail, fleets (sequence), soc, pooled, planned]; reports carry the vehicle's fleets
InFleet(fl, f, allFleets) ==
  IF f = "" THEN TRUE
  ELSE IF f = "none" THEN SSet(fl) \cap allFleets = {}
  ELSE f \in SSet(fl)

\* the activities hive counts, by the column name of the csv file
ActColumn(a) ==
  CASE a = "Idle" -> "vehicles_idle"
    [] a = "Repositioning" -> "vehicles_repositioning"
    [] a = "DispatchTrip" -> "vehicles_dispatch_trip"
    [] a = "ServicingTrip" -> "vehicles_servicing_trip"
    [] a = "DispatchStation" -> "vehicles_dispatch_station"
    [] a = "ChargingStation" -> "vehicles_charging_station"
    [] a = "ChargeQueueing" -> "vehicles_charge_queueing"
    [] a = "DispatchBase" -> "vehicles_dispatch_base"
    [] a = "ReserveBase" -> "vehicles_reserve_base"
    [] a = "ChargingBase" -> "vehicles_charging_base"
    [] a = "OutOfService" -> "vehicles_out_of_service"
    [] a = "DispatchPoolingTrip" -> "vehicles_dispatch_pooling_trip"
    [] a = "ServicingPoolingTrip" -> "vehicles_servicing_pooling_trip"
    [] OTHER -> "vehicles_unknown"
Activities == {"Idle", "Repositioning", "DispatchTrip", "ServicingTrip", "DispatchStation", "ChargingStation", "ChargeQueueing",
               "DispatchBase", "ReserveBase", "ChargingBase", "OutOfService", "DispatchPoolingTrip", "ServicingPoolingTrip"}

\* what the row SHOULD say
Expected(e) ==
  LET all == SSet(e.fleets)
      mine(v) == InFleet(v.fleets, e.fleet, all)
      rmine(r) == InFleet(r.fleets, e.fleet, all)
      nveh == SCount(e.veh, mine)
      assignedGlobal == SCount(e.req, LAMBDA r : r.assigned)
      \* a fleet's row counts the fleet's vehicles that are on their way to a request (one request each; a pooling plan counts
      \* every stop); the global row counts the requests that record a vehicle
      assigned == IF e.fleet = "" THEN assignedGlobal
                  ELSE SCount(e.veh, LAMBDA v : mine(v) /\ v.act = "DispatchTrip") + SSum(e.veh, LAMBDA v : mine(v) /\ v.act = "DispatchPoolingTrip", LAMBDA v : v.planned)
  IN [vehicles |-> nveh,
      assigned_requests |-> assigned,
      \* requests nobody is assigned to: a property of the request pool, the same in every row
      active_requests |-> Len(e.req) - assignedGlobal,
      canceled_requests |-> Len(e.cancels),
      servicing_requests |-> SCount(e.veh, LAMBDA v : mine(v) /\ v.act = "ServicingTrip")
                              + SSum(e.veh, LAMBDA v : mine(v) /\ v.act = "ServicingPoolingTrip", LAMBDA v : v.pooled),
      drivers_available |-> SCount(e.veh, LAMBDA v : mine(v) /\ v.avail),
      drivers_unavailable |-> SCount(e.veh, LAMBDA v : mine(v) /\ ~v.avail),
      vkt |-> SSum(e.moves, rmine, LAMBDA r : r.m),
      nmoves |-> SCount(e.moves, rmine),
      soc_sum |-> SSum(e.veh, mine, LAMBDA v : v.soc)]

Field(row, k) == IF k \in DOMAIN row THEN row[k] ELSE -1

RowOK(e) ==
  LET X == Expected(e)
      row == e.row
      all == SSet(e.fleets)
      mine(v) == InFleet(v.fleets, e.fleet, all)
      rmine(r) == InFleet(r.fleets, e.fleet, all)
      which == IF e.fleet = "" THEN "global" ELSE IF e.fleet = "none" THEN "no_fleet" ELSE "fleet"
      ints == {"vehicles", "assigned_requests", "active_requests", "canceled_requests", "servicing_requests",
               "drivers_available", "drivers_unavailable"}
  IN
     \* the row belongs to the step it was written for
     (IF Field(row, "time_step") # e.i + 1 THEN {SV("row_is_for_this_step", which, e.i)} ELSE {})
  \cup {SV(k, which, e.i) : k \in {k \in ints : Field(row, k) # X[k]}}
     \* one column per activity
  \cup {SV(ActColumn(a), which, e.i) : a \in {a \in Activities :
          Field(row, ActColumn(a)) # SCount(e.veh, LAMBDA v : mine(v) /\ v.act = a)}}
     \* plugs in use by type: the charge events of the step
  \cup {SV("charger_in_use", which, c) : c \in {c \in SSet(e.chargers) :
          Field(row.chargers, c) # SCount(e.charges, LAMBDA r : rmine(r) /\ r.charger = c)}}
     \* distance driven in the step: the move events of the step (1 m per event for the rounding)
  \cup (IF SAbs(Field(row, "vkt") - X.vkt) > X.nmoves + 1 THEN {SV("vkt", which, e.i)} ELSE {})
     \* mean charge level (1e-4 per vehicle for the rounding); no vehicles: no value (-1)
  \cup (IF X.vehicles = 0 THEN (IF Field(row, "soc") # -1 THEN {SV("avg_soc_percent", which \o "/no_vehicles", e.i)} ELSE {})
        ELSE IF SAbs(Field(row, "soc") * X.vehicles - X.soc_sum) > 2 * X.vehicles THEN {SV("avg_soc_percent", which, e.i)} ELSE {})

(***************************************************************************)
(* The summary of the run (summary_stats.json, from StatsHandler): figures *)
(* of the END state and running totals of the per-step observations.       *)
(* Hs: history kept by the trace specification from the global "stats"     *)
(* lines - acts[a]: vehicle-steps observed in activity a; vkt[a], nmv[a]:  *)
(* metres / number of the move events reported for activity a.             *)
(***************************************************************************)
Hs0 == [acts |-> <<>>, vkt |-> <<>>, nmv |-> <<>>]
LOCAL SBump(f, keys, D(_)) == [x \in DOMAIN f \cup keys |-> (IF x \in DOMAIN f THEN f[x] ELSE 0) + D(x)]
HsNext(Hs, e) ==
  IF e.k # "stats" \/ e.fleet # "" THEN Hs
  ELSE [acts |-> SBump(Hs.acts, {e.veh[i].act : i \in DOMAIN e.veh}, LAMBDA a : SCount(e.veh, LAMBDA v : v.act = a)),
        vkt  |-> SBump(Hs.vkt, {e.moves[i].state : i \in DOMAIN e.moves}, LAMBDA a : SSum(e.moves, LAMBDA r : r.state = a, LAMBDA r : r.m)),
        nmv  |-> SBump(Hs.nmv, {e.moves[i].state : i \in DOMAIN e.moves}, LAMBDA a : SCount(e.moves, LAMBDA r : r.state = a))]

LOCAL At(f, k) == IF k \in DOMAIN f THEN f[k] ELSE 0
SummaryOK(Hs, adds, cancels, e) ==
  IF "fin" \notin DOMAIN e THEN {} ELSE
  LET sm == e.summary  veh == e.fin.veh  st == e.fin.st
      n == Len(veh)  ns == Len(st)
      names == {a \in DOMAIN Hs.acts : Hs.acts[a] > 0} \cup DOMAIN Hs.vkt
      Near(x, y, tol) == SAbs(x - y) <= tol
  IN (IF sm.nveh # n THEN {SV("final_vehicle_count", "summary", n)} ELSE {})
  \cup (IF n > 0 /\ ~Near(sm.soc * n, SSum(veh, LAMBDA v : TRUE, LAMBDA v : v.soc), 2 * n) THEN {SV("mean_final_soc", "summary", n)} ELSE {})
  \cup (IF ~Near(sm.fleet_rev, SSum(veh, LAMBDA v : TRUE, LAMBDA v : v.bal), n + 1) THEN {SV("fleet_revenue_dollars", "summary", n)} ELSE {})
  \cup (IF ~Near(sm.station_rev, SSum(st, LAMBDA x : TRUE, LAMBDA x : x.bal), ns + 1) THEN {SV("station_revenue_dollars", "summary", ns)} ELSE {})
  \cup (IF ~Near(sm.kwh_exp, SSum(veh, LAMBDA v : v.kind = "electric", LAMBDA v : v.spent), n + 1) THEN {SV("total_kwh_expended", "summary", n)} ELSE {})
  \cup (IF ~Near(sm.gge_exp, SSum(veh, LAMBDA v : v.kind = "gasoline", LAMBDA v : v.spent), n + 1) THEN {SV("total_gge_expended", "summary", n)} ELSE {})
  \cup (IF ~Near(sm.kwh_disp, SSum(st, LAMBDA x : TRUE, LAMBDA x : x.disp_e), ns + 1) THEN {SV("total_kwh_dispensed", "summary", ns)} ELSE {})
  \cup (IF ~Near(sm.gge_disp, SSum(st, LAMBDA x : TRUE, LAMBDA x : x.disp_g), ns + 1) THEN {SV("total_gge_dispensed", "summary", ns)} ELSE {})
     \* share of the admitted requests that were not cancelled (1e-4)
  \cup (IF (IF adds > 0 THEN ~Near(sm.served * adds, (adds - cancels) * 10000, adds) ELSE sm.served # 0)
        THEN {SV("requests_served_percent", "summary", adds)} ELSE {})
     \* per activity: share of the observed vehicle-steps (1e-4), distance of the move events reported for it
  \cup (IF {sm.vstate[i][1] : i \in DOMAIN sm.vstate} # names THEN {SV("vehicle_state", "activities_listed", Cardinality(names))} ELSE {})
  \cup {SV("vehicle_state", "observed_percent", sm.vstate[i][1]) : i \in {i \in DOMAIN sm.vstate :
          LET tot == SSum([j \in 1..Len(sm.vstate) |-> sm.vstate[j]], LAMBDA x : TRUE, LAMBDA x : At(Hs.acts, x[1])) IN
          tot > 0 /\ tot < 200000 /\ ~Near(sm.vstate[i][2] * tot, At(Hs.acts, sm.vstate[i][1]) * 10000, tot)}}
  \cup {SV("vehicle_state", "vkt", sm.vstate[i][1]) : i \in {i \in DOMAIN sm.vstate :
          ~Near(sm.vstate[i][3], At(Hs.vkt, sm.vstate[i][1]), At(Hs.nmv, sm.vstate[i][1]) + 1)}}
=============================================================================
