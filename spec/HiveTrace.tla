------------------------------ MODULE HiveTrace ------------------------------
(***************************************************************************)
(* Trace specification: replays a run RECORDED FROM THE REAL CODE (one     *)
(* ndjson line per atomic action of the step pipeline, written by the      *)
(* hooks through hv/tracer.py) and, for every consumed line,               *)
(*  (a) MONITOR: evaluates the property clauses of HiveProps (and the      *)
(*      ledger / life-cycle clauses below) on the observed state or step - *)
(*      these give the verdicts;                                           *)
(*  (b) CONFORMANCE: checks that the observed step is the step HiveCore's  *)
(*      operator for that action allows from the observed predecessor      *)
(*      state (numeric nondeterminism bound from the log) - this is what   *)
(*      ties the exhaustively checked model to the code.  After a          *)
(*      divergence the replay re-synchronises on the observed state, so    *)
(*      the rest of the trace is still checked.                            *)
(* Verdicts are accumulated in TLC registers (run with -workers 1) and     *)
(* printed as JSON by the POSTCONDITION, which also demands that every     *)
(* line was consumed.                                                      *)
(***************************************************************************)
EXTENDS HiveProps, Json, IOUtils

CONSTANTS Enabled      \* the property ids whose clauses are monitored in this run

VARIABLES S, H, l
tvars == <<S, H, l>>

TLog == ndJsonDeserialize(IOEnv.TRACE_FILE)

-----------------------------------------------------------------------------
(* loading: deltas of the projected state *)
SeqToSet(s) == {s[i] : i \in DOMAIN s}
PairsToFn(ps) == [k \in {ps[i][1] : i \in DOMAIN ps} |-> ps[CHOOSE i \in DOMAIN ps : ps[i][1] = k][2]]

NormVeh(r) == [r EXCEPT !.fleets = SeqToSet(@), !.obdest = SeqToSet(@)]
NormSt(r)  == [r EXCEPT !.fleets = SeqToSet(@), !.pl = PairsToFn(@), !.disp = PairsToFn(@), !.onshift = SeqToSet(@)]
NormBs(r)  == [r EXCEPT !.fleets = SeqToSet(@)]
NormReq(r) == [r EXCEPT !.fleets = SeqToSet(@), !.paxdest = SeqToSet(@)]

Upd(f, ps, rm, Norm(_)) ==
  LET new == PairsToFn(ps)
      dom == (DOMAIN f \cup DOMAIN new) \ SeqToSet(rm)
  IN [k \in dom |-> IF k \in DOMAIN new THEN Norm(new[k]) ELSE f[k]]

Empty == [veh |-> <<>>, st |-> <<>>, bs |-> <<>>, req |-> <<>>, now |-> 0, ord |-> <<>>]

Apply(St, e) ==
  [veh |-> Upd(St.veh, e.d.veh, e.d.rmveh, NormVeh),
   st  |-> Upd(St.st, e.d.st, e.d.rmst, NormSt),
   bs  |-> Upd(St.bs, e.d.bs, e.d.rmbs, NormBs),
   req |-> Upd(St.req, e.d.req, e.d.rmreq, NormReq),
   now |-> IF "time" \in DOMAIN e THEN e.time ELSE St.now,
   ord |-> IF e.ev = "init" /\ "vrank" \in DOMAIN e THEN PairsToFn(e.vrank) ELSE St.ord]

Has(P) == P \in Enabled

-----------------------------------------------------------------------------
(* registers: 1 = violations, 2 = divergences, 3 = coverage (distinct cases), 4 = lines consumed *)
Key(v) == <<v[1], v[2], v[3]>>
Merge(reg, vs, ln) ==
  LET keys == {Key(v) : v \in vs} IN
  [k \in DOMAIN reg \cup keys |->
     IF k \in DOMAIN reg THEN (IF k \in keys THEN [reg[k] EXCEPT !.n = @ + 1] ELSE reg[k])
     ELSE [line |-> ln, w |-> (CHOOSE v \in vs : Key(v) = k)[4], n |-> 1]]

Record(vs, dv, cov, ln) ==
  /\ IF vs = {} THEN TRUE ELSE TLCSet(1, Merge(TLCGet(1), vs, ln))
  /\ IF dv = {} THEN TRUE ELSE TLCSet(2, Merge(TLCGet(2), dv, ln))
  /\ IF cov \subseteq TLCGet(3) THEN TRUE ELSE TLCSet(3, TLCGet(3) \cup cov)
  /\ LET hot == {c \in cov : c[1] = "Grant"} IN
     IF hot = {} THEN TRUE
     ELSE TLCSet(5, [k \in DOMAIN TLCGet(5) \cup hot |-> (IF k \in DOMAIN TLCGet(5) THEN TLCGet(5)[k] ELSE 0) + (IF k \in hot THEN 1 ELSE 0)])
  /\ TLCSet(4, ln)

-----------------------------------------------------------------------------
(* conformance: discrete projection of a state *)
DiscVeh(r) == <<r.act, r.tgt, r.plug, r.pos, r.lnk, r.rn, r.rs, r.re, r.enq, r.ob>>
DiscSt(s)  == [p \in DOMAIN s.pl |-> <<s.pl[p].av, s.pl[p].qn>>]
DiscReq(q) == <<q.disp, q.dtime>>

DiffVeh(P, T) == {v \in DOMAIN P.veh \cup DOMAIN T.veh :
                    v \notin DOMAIN P.veh \/ v \notin DOMAIN T.veh \/ DiscVeh(P.veh[v]) # DiscVeh(T.veh[v])}
DiffSt(P, T)  == {s \in DOMAIN P.st \cup DOMAIN T.st :
                    s \notin DOMAIN P.st \/ s \notin DOMAIN T.st \/ DiscSt(P.st[s]) # DiscSt(T.st[s])}
DiffBs(P, T)  == {b \in DOMAIN P.bs \cup DOMAIN T.bs :
                    b \notin DOMAIN P.bs \/ b \notin DOMAIN T.bs \/ P.bs[b].stall # T.bs[b].stall}
DiffReq(P, T) == {r \in DOMAIN P.req \cup DOMAIN T.req :
                    r \notin DOMAIN P.req \/ r \notin DOMAIN T.req \/ DiscReq(P.req[r]) # DiscReq(T.req[r])}

\* divergence tuples <<action, what, detail, witness>>
Div(action, detail, P, T) ==
     {<<action, "vehicle", detail, v>> : v \in DiffVeh(P, T)}
  \cup {<<action, "station", detail, s>> : s \in DiffSt(P, T)}
  \cup {<<action, "base", detail, b>> : b \in DiffBs(P, T)}
  \cup {<<action, "request", detail, r>> : r \in DiffReq(P, T)}

OutOf(R, okname) == IF R.ok THEN okname ELSE IF R.err THEN "error" ELSE "none"

ConfInstr(B, T, e) ==
  IF e.out = "invalid" THEN
       (IF InstructionInvalid(B, e.v, e.i) \/ e.i.kind \in {"Reposition", "DispatchPoolingTrip"}
        THEN {} ELSE {<<"Instruct", "outcome", "invalid_but_spec_accepts_" \o e.i.kind, e.v>>})
       \cup Div("Instruct", "invalid", B, T)
  ELSE IF e.v \notin DOMAIN B.veh THEN {}
  ELSE LET R == TransOp(B, e.v, e.nx)  exp == OutOf(R, "applied") IN
       (IF exp = e.out THEN {}
        ELSE {<<"Instruct", "outcome", e.pact \o "->" \o e.nx.act \o ":spec=" \o exp \o ",code=" \o e.out, e.v>>})
       \cup Div("Instruct", e.pact \o "->" \o e.nx.act, R.S, T)

\* bind the numeric outcome of a move from what was observed
MovePrm(B, T, v) ==
  LET o == T.veh[v]  b == B.veh[v] IN
  [mv   |-> IF o.act = "OutOfService" /\ b.act # "OutOfService" /\ b.act # "Idle" THEN "oos"
            ELSE IF o.rn = 0 THEN "arr" ELSE "part",
   npos |-> o.pos, nlnk |-> o.lnk, nrn |-> o.rn]

ConfUpdate(B, T, e) ==
  IF e.v \notin DOMAIN B.veh \/ e.v \notin DOMAIN T.veh THEN {}
  ELSE LET R == UpdateOp(B, e.v, MovePrm(B, T, e.v))  exp == OutOf(R, "ok")
           tag == B.veh[e.v].act \o "->" \o T.veh[e.v].act IN
       (IF exp = e.out THEN {}
        ELSE {<<"Update", "outcome", tag \o ":spec=" \o exp \o ",code=" \o e.out, e.v>>})
       \cup Div("Update", tag, R.S, T)

\* events that may only touch what they are about
ConfFrame(B, T, e) ==
  CASE e.ev \in {"begin", "end", "stacks"} -> Div(e.ev, "frame", B, T)
    [] e.ev = "tick" -> Div("Tick", "frame", B, T)
    [] e.ev = "drivers" -> Div("Drivers", "frame", B, T)
    [] e.ev = "pre" /\ e.fn = "ChargingPriceUpdate" -> Div("PriceUpdate", "frame", B, T)
    [] e.ev = "pre" /\ e.fn = "UpdateRequestsFromFile" ->
         \* may only ADD requests
         {<<"Admit", x[2], x[3], x[4]>> : x \in {x \in Div("Admit", "frame", B, T) :
               ~(x[2] = "request" /\ x[4] \notin DOMAIN B.req /\ x[4] \in DOMAIN T.req)}}
    [] e.ev = "pre" /\ e.fn = "CancelRequests" ->
         {<<"Cancel", x[2], x[3], x[4]>> : x \in {x \in Div("Cancel", "frame", B, T) :
               ~(x[2] = "request" /\ x[4] \in DOMAIN B.req /\ x[4] \notin DOMAIN T.req)}}
    [] OTHER -> {}

\* every step must contain one instruction event per popped instruction and one update event per vehicle: a refactoring
\* that loses a hook must not make the checks silently vacuous (reported as machinery failure, not as a verdict)
ConfHooks(Hh, B, e) ==
  IF e.ev # "tick" THEN {}
  \* MISSING events mean the instrumentation no longer matches the pipeline (machinery failure); EXTRA ones mean the code
  \* stepped a vehicle / applied an instruction more than once in the step - an ordinary divergence, monitoring goes on
  ELSE (IF Hh.nupd < Cardinality(DOMAIN B.veh) THEN {<<"Hooks", "update_events", "missing", "step">>} ELSE {})
       \cup (IF Hh.nupd > Cardinality(DOMAIN B.veh) THEN {<<"Update", "update_events", "a_vehicle_updated_twice_in_one_step", "step">>} ELSE {})
       \cup (IF Hh.ninstr < Len(Hh.final) THEN {<<"Hooks", "instruction_events", "missing", "step">>} ELSE {})
       \cup (IF Hh.ninstr > Len(Hh.final) THEN {<<"Instruct", "instruction_events", "more_instructions_applied_than_popped", "step">>} ELSE {})

\* perform_vehicle_state_updates: non-queueing vehicles by id, then queueing vehicles by (enqueue time, id), the order
\* being fixed from the state at the start of the update phase
ConfOrder(Hh, B, e) ==
  IF e.ev # "update" THEN {}
  ELSE LET U == IF Hh.nupd = 0 THEN B.veh ELSE Hh.ustate
           left == DOMAIN U \ Hh.udone
           q(v) == U[v].act = "ChargeQueueing"
           Earlier(a, b) == IF q(a) # q(b) THEN q(b)
                            ELSE IF q(a) /\ U[a].enq # U[b].enq THEN U[a].enq < U[b].enq
                            ELSE Hh.vrank[a] < Hh.vrank[b]
       IN IF e.v \in left /\ \E w \in left \ {e.v} : Earlier(w, e.v)
          THEN {<<"UpdateOrder", "order", IF q(e.v) THEN "queueing_vehicle_updated_too_early" ELSE "vehicle_updated_too_early", e.v>>}
          ELSE {}

Conformance(B, T, e) ==
  CASE e.ev = "instr" -> ConfInstr(B, T, e)
    [] e.ev = "update" -> ConfUpdate(B, T, e)
    [] e.ev = "init" -> {}
    [] OTHER -> ConfFrame(B, T, e)

Coverage(B, T, e) ==
  CASE e.ev = "instr" -> {<<"Instruct", e.pact, e.nx.act, e.out>>}
    [] e.ev = "update" /\ e.v \in DOMAIN B.veh /\ e.v \in DOMAIN T.veh ->
         {<<"Update", B.veh[e.v].act, T.veh[e.v].act, e.out>>}
         \cup (IF Grant(B, T, e.v)
               THEN {<<"Grant", IF \E w \in DOMAIN B.veh \ {e.v} : StillWaiting(B, T, w, B.veh[e.v].tgt, B.veh[e.v].plug)
                                THEN "others_left_waiting" ELSE "nobody_else_waiting", "", "">>}
               ELSE {})
    [] e.ev = "pre" -> {<<"Pre", e.fn, "", "">>}
    [] OTHER -> {<<e.ev, "", "", "">>}

-----------------------------------------------------------------------------
(* history *)
HInit(T, e) ==
  [en0      |-> [v \in DOMAIN T.veh |-> T.veh[v].en],
   cap      |-> PairsToFn(e.caps),
   dt       |-> e.dt,
   dtc      |-> IF "dt_cfg" \in DOMAIN e THEN e.dt_cfg ELSE e.dt,      \* the CONFIGURED step length (C15)
   cancel   |-> e.cancel,
   builtin  |-> IF "builtin" \in DOMAIN e THEN e.builtin ELSE FALSE,
   vrank    |-> IF "vrank" \in DOMAIN e THEN PairsToFn(e.vrank) ELSE <<>>,
   vdisp    |-> IF "valid_dispatch" \in DOMAIN e THEN SeqToSet(e.valid_dispatch) ELSE {},   \* dispatchable activities (lower case)
   admitted |-> DOMAIN T.req,
   picked   |-> <<>>,          \* request -> vehicle that picked it up
   value    |-> [r \in DOMAIN T.req |-> T.req[r].value],
   dropped  |-> {},
   cancelled|-> {},
   stranded |-> {},
   instructed |-> {},          \* vehicles an instruction was attempted for in this step
   final    |-> <<>>,
   arrived  |-> [v \in DOMAIN T.veh |-> 0],
   disp0    |-> [k \in {"electric", "gasoline"} |->
                   SumOver(T.st, {s \in DOMAIN T.st : k \in DOMAIN T.st[s].disp}, LAMBDA s : T.st[s].disp[k])],
   fares    |-> 0,             \* sum of the values of the requests picked up so far
   nev      |-> 0,             \* number of ledger events (pickups and charge steps): bounds the rounding error
   sched    |-> IF "sched" \in DOMAIN e THEN [k \in DOMAIN PairsToFn(e.sched) |-> PairsToFn(e.sched)[k]] ELSE <<>>,
   gens     |-> <<>>,          \* what each instruction generator emitted in this step, in generation order
   reqfile  |-> IF "reqfile" \in DOMAIN e THEN PairsToFn(e.reqfile) ELSE <<>>,      \* request id -> departure time
   pricefile|-> IF "pricefile" \in DOMAIN e
                THEN [i \in DOMAIN e.pricefile |-> [e.pricefile[i] EXCEPT !.sts = SeqToSet(@)]] ELSE <<>>,
   ustate   |-> <<>>,          \* the vehicles as they were when this step's update phase began, and those updated so far
   udone    |-> {},
   nupd     |-> 0,             \* vehicle updates / instruction attempts recorded in this step (hook presence)
   ninstr   |-> 0,
   qbegin   |-> <<>>,          \* the charge queues at the beginning of the step: vehicle -> [s, p, enq]  (C18 over the step)
   steps    |-> 0]

Reports(e, type) == {e.rep[i] : i \in {i \in DOMAIN e.rep : e.rep[i].type = type}}

\* requests picked up in this update: they left `req` in the update of the vehicle that was dispatched to them
\* (the only way a vehicle update removes a request; the vehicle may run out of energy in the same update)
PickedNow(B, T, e) ==
  IF e.ev = "update" /\ e.v \in DOMAIN B.veh
  THEN {r \in DOMAIN B.req \ DOMAIN T.req : B.veh[e.v].act = "DispatchTrip" /\ B.veh[e.v].tgt = r} ELSE {}

DroppedNow(e) == IF e.ev = "update" THEN {x.request_id : x \in Reports(e, "dropoff_request_event")} ELSE {}

HNext(Hh, B, T, e) ==
  LET newreq == DOMAIN T.req \ DOMAIN B.req
      gone   == DOMAIN B.req \ DOMAIN T.req
      pk     == PickedNow(B, T, e)
  IN
  [Hh EXCEPT
     !.admitted = @ \cup newreq,
     !.value = [r \in DOMAIN @ \cup newreq |-> IF r \in newreq THEN T.req[r].value ELSE @[r]],
     !.picked = [r \in DOMAIN @ \cup pk |-> IF r \in pk THEN e.v ELSE @[r]],
     !.dropped = @ \cup DroppedNow(e),
     !.cancelled = @ \cup (IF e.ev = "pre" /\ e.fn = "CancelRequests" THEN gone ELSE {}),
     !.stranded = @ \cup (IF e.ev = "update" /\ e.v \in DOMAIN B.veh /\ e.v \in DOMAIN T.veh
                             /\ T.veh[e.v].act = "OutOfService"
                          THEN ({B.veh[e.v].ob} \ {None}) \cup pk ELSE {}),
     !.instructed = IF e.ev = "begin" THEN {} ELSE IF e.ev = "instr" THEN @ \cup {e.v} ELSE @,
     !.final = IF e.ev = "stacks" THEN e.final ELSE @,
     !.arrived = IF e.ev = "update" /\ e.v \in DOMAIN B.veh /\ e.v \in DOMAIN T.veh
                 THEN [@ EXCEPT ![e.v] =
                        IF B.veh[e.v].act \in Moving /\ B.veh[e.v].rn = 0 /\ T.veh[e.v].act = B.veh[e.v].act
                           /\ T.veh[e.v].tgt = B.veh[e.v].tgt
                        THEN @ + 1 ELSE 0]
                 ELSE @,
     !.fares = @ + SumOver(Hh.value, pk, LAMBDA r : Hh.value[r]),
     !.nev = IF e.ev = "update" /\ e.v \in DOMAIN B.veh /\ e.v \in DOMAIN T.veh
                /\ (pk # {} \/ B.veh[e.v].gained # T.veh[e.v].gained \/ B.veh[e.v].bal # T.veh[e.v].bal)
             THEN @ + 1 ELSE @,
     !.gens = IF e.ev = "begin" THEN <<>> ELSE IF e.ev = "gen" THEN Append(@, [name |-> e.name, instrs |-> e.instrs]) ELSE @,
     !.ustate = IF e.ev = "begin" THEN <<>> ELSE IF e.ev = "update" /\ Hh.nupd = 0 THEN B.veh ELSE @,
     !.udone = IF e.ev = "begin" THEN {} ELSE IF e.ev = "update" THEN @ \cup {e.v} ELSE @,
     !.nupd = IF e.ev = "begin" THEN 0 ELSE IF e.ev = "update" THEN @ + 1 ELSE @,
     !.ninstr = IF e.ev = "begin" THEN 0 ELSE IF e.ev = "instr" THEN @ + 1 ELSE @,
     !.qbegin = IF e.ev = "begin"
                THEN [v \in {v \in DOMAIN T.veh : T.veh[v].act = "ChargeQueueing"} |-> [s |-> T.veh[v].tgt, p |-> T.veh[v].plug, enq |-> T.veh[v].enq]]
                ELSE @,
     !.steps = IF e.ev = "end" THEN @ + 1 ELSE @]

-----------------------------------------------------------------------------
(* monitors *)

MonState(Hh, T) ==
     (IF Has("C02") THEN C02_State(T) ELSE {})
  \cup (IF Has("C07") THEN C07_State(T) ELSE {})
  \cup (IF Has("C17") THEN C17_State(T) \cup (IF Hh.builtin THEN C17_Unique(T) ELSE {}) ELSE {})
  \cup (IF Has("C03") THEN C03_OneCarrier(T) ELSE {})

(* C03 - request life-cycle with history *)
C03_Step(Hh, B, T, e) ==
  LET newreq == DOMAIN T.req \ DOMAIN B.req
      gone   == DOMAIN B.req \ DOMAIN T.req
      pk     == PickedNow(B, T, e)
      cancelNow == IF e.ev = "pre" /\ e.fn = "CancelRequests" THEN gone ELSE {}
  IN
     \* admitted at most once, and only by the request update
     {V("C03", "admitted_once", "request", r) : r \in newreq \cap Hh.admitted}
  \cup {V("C03", "admitted_by_input_only", e.ev, r) : r \in {r \in newreq : ~(e.ev = "pre" /\ e.fn = "UpdateRequestsFromFile")}}
     \* a request leaves the waiting set only by one pickup or one cancellation
  \cup {V("C03", "vanished", e.ev, r) : r \in gone \ (pk \cup cancelNow)}
  \cup {V("C03", "picked_and_cancelled", "request", r) : r \in (pk \cap Hh.cancelled) \cup (cancelNow \cap DOMAIN Hh.picked)}
  \cup {V("C03", "picked_once", "request", r) : r \in pk \cap DOMAIN Hh.picked}
     \* the fare is credited once, to the vehicle that picked it up (bal in 1e-4 units, rounding +-1)
  \cup {V("C03", "fare_credited", "request", r) : r \in {r \in pk :
           LET d == T.veh[e.v].bal - B.veh[e.v].bal - Hh.value[r] IN d > 2 \/ d < -2}}
     \* drop-off: once, by the vehicle that picked it up, at the destination
  \cup {V("C03", "dropoff_by_carrier", "request", x.request_id) : x \in {x \in Reports(e, "dropoff_request_event") :
           e.ev # "update" \/ x.request_id \notin DOMAIN Hh.picked \cup pk
           \/ (x.request_id \in DOMAIN Hh.picked /\ Hh.picked[x.request_id] # e.v) \/ x.vehicle_id # e.v}}
  \cup {V("C03", "dropoff_once", "request", r) : r \in DroppedNow(e) \cap Hh.dropped}
  \cup {V("C03", "dropoff_at_destination", "request", r) : r \in {r \in DroppedNow(e) :
           e.v \in DOMAIN T.veh /\ e.v \in DOMAIN B.veh /\ T.veh[e.v].pos \notin B.veh[e.v].obdest \cup T.veh[e.v].obdest}}
     \* a carrying vehicle keeps carrying until it drops off (arrival) or runs out of energy
  \cup (IF e.ev \in {"instr", "update"} /\ e.v \in DOMAIN B.veh /\ e.v \in DOMAIN T.veh
           /\ B.veh[e.v].ob # None /\ T.veh[e.v].ob # B.veh[e.v].ob
           /\ B.veh[e.v].ob \notin Hh.dropped \cup DroppedNow(e) /\ T.veh[e.v].act # "OutOfService"
        THEN {V("C03", "carried_until_dropoff", T.veh[e.v].act, e.v)} ELSE {})
  \cup (IF e.ev = "instr" /\ e.v \in DOMAIN B.veh /\ e.v \in DOMAIN T.veh THEN C03_NoDivert(B, T, e.v) ELSE {})
     \* arriving with passengers drops them off in that very update
  \cup (IF e.ev = "update" /\ e.v \in DOMAIN B.veh /\ e.v \in DOMAIN T.veh
           /\ T.veh[e.v].act = "ServicingTrip" /\ T.veh[e.v].rn = 0
           /\ (B.veh[e.v].act # "ServicingTrip" \/ B.veh[e.v].rn > 0)
           /\ T.veh[e.v].ob \notin DroppedNow(e) \cup Hh.dropped
        THEN {V("C03", "dropoff_on_arrival", "vehicle", e.v)} ELSE {})

\* "none vanishes without a trace": what the input steps ANNOUNCE (their add / cancel reports) is what they did
C03_Announced(B, T, e) ==
  IF e.ev = "update" THEN
     \* a pickup that is reported is a pickup that happened (the request boarded in this very update)
     {V("C03", "announced_pickup_is_a_pickup", "request", x.request_id) :
        x \in {x \in Reports(e, "pickup_request_event") : x.request_id \notin PickedNow(B, T, e)}}
     \* ... and a pickup that happened leaves its trace: the request that boarded in this update is reported picked up
  \cup {V("C03", "pickup_leaves_a_trace", "request", r) :
        r \in PickedNow(B, T, e) \ {x.request_id : x \in Reports(e, "pickup_request_event")}}
  ELSE IF e.ev # "pre" THEN {} ELSE
     {V("C03", "announced_admission_is_admitted", "request", x.request_id) :
        x \in {x \in Reports(e, "add_request_event") : x.request_id \notin DOMAIN T.req}}
  \cup {V("C03", "announced_cancellation_is_cancelled", "request", x.request_id) :
        x \in {x \in Reports(e, "cancel_request_event") : x.request_id \in DOMAIN T.req}}

\* at step boundaries: conservation  admitted = waiting + picked + cancelled
C03_Conservation(Hh, T) ==
  {V("C03", "conservation", "request", r) : r \in {r \in Hh.admitted :
      (IF r \in DOMAIN T.req THEN 1 ELSE 0) + (IF r \in DOMAIN Hh.picked THEN 1 ELSE 0)
        + (IF r \in Hh.cancelled THEN 1 ELSE 0) # 1}}
  \cup {V("C03", "picked_is_on_board", "request", r) : r \in {r \in DOMAIN Hh.picked :
      r \notin Hh.dropped /\ r \notin Hh.stranded
      /\ ~(Hh.picked[r] \in DOMAIN T.veh /\ T.veh[Hh.picked[r]].act = "ServicingTrip" /\ T.veh[Hh.picked[r]].ob = r)}}

(* C09 - instruction stacks: generators in configured order, the driver last, the top of the stack is attempted *)
Rev(sq) == [i \in 1..Len(sq) |-> sq[Len(sq) + 1 - i]]
SelectSeq2(sq, Test(_)) == SelectSeq(sq, Test)
GenFor(Hh, v) ==   \* everything the generators emitted for v, in generation order
  LET RECURSIVE Cat(_)
      Cat(i) == IF i = 0 THEN <<>> ELSE Cat(i - 1) \o SelectSeq(Hh.gens[i].instrs, LAMBDA x : x.v = v)
  IN Cat(Len(Hh.gens))

C09_Stacks(Hh, e) ==
  LET stacks == PairsToFn(e.stacks)
      logged == [i \in DOMAIN Hh.gens |-> Hh.gens[i].name] = e.gens     \* every generator of this run reports its emission
      fin == {e.final[i] : i \in DOMAIN e.final}
  IN
     \* the instruction attempted for a vehicle is the top of its stack; nothing else is attempted
     {V("C09", "final_is_top_of_stack", "vehicle", v) : v \in {v \in DOMAIN stacks :
         stacks[v] # <<>> /\ ~(stacks[v][1] \in fin /\ Cardinality({x \in fin : x.v = v}) = 1)}}
  \cup {V("C09", "final_is_top_of_stack", "no_stack", x.v) : x \in {x \in fin : x.v \notin DOMAIN stacks \/ stacks[x.v] = <<>>}}
  \cup (IF Len(e.final) # Cardinality(fin) THEN {V("C09", "one_instruction_per_vehicle", "final", "final")} ELSE {})
     \* the vehicle's own driver has the final word: what the driver asks for in this step is on top of its stack
  \cup (IF "drv" \notin DOMAIN e THEN {} ELSE
        {V("C09", "driver_has_final_word", e.drv[i].kind, e.drv[i].v) : i \in {i \in DOMAIN e.drv :
           ~(e.drv[i].v \in DOMAIN stacks /\ stacks[e.drv[i].v] # <<>> /\ stacks[e.drv[i].v][1] = e.drv[i])}})
     \* last generated wins: the stack holds the generators' instructions in reverse generation order, with at most
     \* one more instruction (the driver's) on top
  \cup (IF ~logged THEN {} ELSE
        {V("C09", "stack_is_generation_order", "vehicle", v) : v \in {v \in DOMAIN stacks :
           LET G == GenFor(Hh, v)  st == stacks[v] IN
           ~(/\ Len(st) \in {Len(G), Len(G) + 1}
             /\ SubSeq(st, Len(st) - Len(G) + 1, Len(st)) = Rev(G))}}
        \cup {V("C09", "stack_is_generation_order", "missing", v) : v \in {v \in {x.v : x \in UNION {SeqToSet(Hh.gens[i].instrs) : i \in DOMAIN Hh.gens}} :
           v \notin DOMAIN stacks}})

\* C12 inside the step pipeline: what the built-in Dispatcher emits is judged against the state the pipeline hands to the
\* generators - the one AFTER this step's driver (shift) update.  (Range eligibility, size and optimality are decided on
\* the dispatcher's own records, HiveMatch.)
LowerAct(a) ==
  CASE a = "Idle" -> "idle" [] a = "Repositioning" -> "repositioning" [] a = "DispatchTrip" -> "dispatchtrip"
    [] a = "ServicingTrip" -> "servicingtrip" [] a = "DispatchStation" -> "dispatchstation"
    [] a = "ChargingStation" -> "chargingstation" [] a = "ChargeQueueing" -> "chargequeueing"
    [] a = "DispatchBase" -> "dispatchbase" [] a = "ReserveBase" -> "reservebase" [] a = "ChargingBase" -> "chargingbase"
    [] a = "OutOfService" -> "outofservice" [] a = "DispatchPoolingTrip" -> "dispatchpoolingtrip"
    [] OTHER -> "servicingpoolingtrip"
C12_Gen(Hh, St, name, instrs) ==
  IF name # "Dispatcher" \/ Hh.vdisp = {} THEN {} ELSE
  LET trips == {i \in DOMAIN instrs : instrs[i].kind = "DispatchTrip" /\ instrs[i].v \in DOMAIN St.veh} IN
     {V("C12", "vehicles_eligible", "pipeline/off_shift", instrs[i].v) : i \in {i \in trips : ~St.veh[instrs[i].v].avail}}
  \cup {V("C12", "vehicles_eligible", "pipeline/activity", instrs[i].v) :
          i \in {i \in trips : LowerAct(St.veh[instrs[i].v].act) \notin Hh.vdisp}}
  \cup {V("C12", "requests_open", "pipeline/assigned", instrs[i].tgt) :
          i \in {i \in trips : instrs[i].tgt \in DOMAIN St.req /\ St.req[instrs[i].tgt].disp # None}}
  \cup {V("C12", "requests_open", "pipeline/unknown", instrs[i].tgt) : i \in {i \in trips : instrs[i].tgt \notin DOMAIN St.req}}

\* the built-in generators pair vehicles only with requests / stations of their own fleets (or public ones)
C10_Builtin(St, name, instrs) ==
  IF name \notin {"Dispatcher", "ChargingFleetManager"} THEN {} ELSE
  {V("C10", "builtin_pairs_within_fleet", name \o (IF instrs[i].v \in DOMAIN St.veh /\ St.veh[instrs[i].v].fleets = {} THEN "/fleetless_vehicle" ELSE ""), instrs[i].v) :
     i \in {i \in DOMAIN instrs :
        LET x == instrs[i] IN
        /\ x.v \in DOMAIN St.veh
        /\ \/ x.kind = "DispatchTrip" /\ x.tgt \in DOMAIN St.req /\ ~Access(St.req[x.tgt].fleets, St.veh[x.v].fleets)
           \/ x.kind = "DispatchStation" /\ x.tgt \in DOMAIN St.st /\ ~Access(St.st[x.tgt].fleets, St.veh[x.v].fleets)}}

(* C08 - index snapshots logged at step boundaries: each index is exactly the inverse of the positions *)
IdxMap(ps) == [k \in {ps[i][1] : i \in DOMAIN ps} |-> SeqToSet(ps[CHOOSE i \in DOMAIN ps : ps[i][1] = k][2])]
InverseOf(f, G(_)) == LET img == {G(f[x]) : x \in DOMAIN f} IN [c \in img |-> {x \in DOMAIN f : G(f[x]) = c}]

C08_Snapshot(T, idx) ==
  LET par == PairsToFn(idx.parent)
      P(coll) == [x \in DOMAIN coll |-> coll[x].pos]
      Chk(name, posf, lc, sr) ==
           (IF IdxMap(lc) # InverseOf(posf, LAMBDA c : c) THEN {V("C08", "location_index_exact", name, name)} ELSE {})
        \cup (IF \E x \in DOMAIN posf : posf[x] \notin DOMAIN par THEN {V("C08", "search_index_exact", "unknown_cell", name)}
              ELSE IF IdxMap(sr) # InverseOf(posf, LAMBDA c : par[c]) THEN {V("C08", "search_index_exact", name, name)} ELSE {})
  IN Chk("vehicles", P(T.veh), idx.vloc, idx.vsrch) \cup Chk("requests", P(T.req), idx.rloc, idx.rsrch)
     \cup Chk("stations", P(T.st), idx.sloc, idx.ssrch) \cup Chk("bases", P(T.bs), idx.bloc, idx.bsrch)

\* stations and bases never change location
C08_Immobile(B, T) ==
     {V("C08", "stations_never_move", "station", x) : x \in {x \in DOMAIN B.st \cap DOMAIN T.st : B.st[x].pos # T.st[x].pos}}
  \cup {V("C08", "bases_never_move", "base", x) : x \in {x \in DOMAIN B.bs \cap DOMAIN T.bs : B.bs[x].pos # T.bs[x].pos}}

(* C11 - timed inputs take effect exactly once, at the right step.  The tables come from the scenario's own files.   *)
(* Step k begins at T.now; a request is admitted in the first step that begins AFTER its departure time unless it has *)
(* expired by then; a waiting request is cancelled in the first step that begins at or after departure + timeout;     *)
(* a price row is in force from the first step that begins after its time stamp, on the stations and plug it names.   *)
C11_Admit(Hh, B, T) ==
  LET now == T.now  C == Hh.cancel  dep == Hh.reqfile
      expected == {r \in DOMAIN dep : dep[r] < now /\ (Hh.steps = 0 \/ dep[r] >= now - Hh.dt) /\ dep[r] + C > now}
      actual == DOMAIN T.req \ DOMAIN B.req
  IN {V("C11", "admitted_in_first_step_after_departure", "missing", r) : r \in expected \ actual}
     \cup {V("C11", "admitted_in_first_step_after_departure",
             IF r \notin DOMAIN dep THEN "unknown_request" ELSE IF dep[r] >= now THEN "before_departure"
             ELSE IF dep[r] + C <= now THEN "already_expired" ELSE "late_or_twice", r) : r \in actual \ expected}

C11_Cancel(Hh, B, T) ==
  LET now == T.now  C == Hh.cancel
      expected == {r \in DOMAIN B.req : now >= B.req[r].dep + C}
      actual == DOMAIN B.req \ DOMAIN T.req
  IN {V("C11", "cancelled_at_timeout", "late", r) : r \in expected \ actual}
     \cup {V("C11", "cancelled_at_timeout", "early", r) : r \in actual \ expected}

PriceInForce(Hh, s, p, now) ==
  LET rows == {i \in DOMAIN Hh.pricefile : Hh.pricefile[i].time < now /\ s \in Hh.pricefile[i].sts /\ Hh.pricefile[i].plug = p} IN
  IF rows = {} THEN [price |-> 0, kind |-> "default"]
  ELSE LET i == CHOOSE i \in rows : \A j \in rows : j <= i IN [price |-> Hh.pricefile[i].price, kind |-> Hh.pricefile[i].kind]

\* rows of the current window that name a plug type but not this station: the kind of region they use (for the signature)
C11_Prices(Hh, T) ==
  {V("C11", "price_in_force", PriceInForce(Hh, x[1], x[2], T.now).kind, x[1]) :
     x \in {x \in {<<s, p>> : s \in DOMAIN T.st, p \in UNION {DOMAIN T.st[ss].pl : ss \in DOMAIN T.st}} :
              x[2] \in DOMAIN T.st[x[1]].pl /\ T.st[x[1]].pl[x[2]].price # PriceInForce(Hh, x[1], x[2], T.now).price}}

C11_PriceFrame(B, T) ==
  {V("C11", "prices_change_only_by_price_update", "station", s) : s \in {s \in DOMAIN B.st \cap DOMAIN T.st :
      \E p \in DOMAIN B.st[s].pl \cap DOMAIN T.st[s].pl : B.st[s].pl[p].price # T.st[s].pl[p].price}}

C11_Step(Hh, B, T, e) ==
  IF e.ev = "pre" /\ e.fn = "UpdateRequestsFromFile" THEN C11_Admit(Hh, B, T) \cup C11_PriceFrame(B, T)
  ELSE IF e.ev = "pre" /\ e.fn = "CancelRequests" THEN C11_Cancel(Hh, B, T) \cup C11_PriceFrame(B, T)
  ELSE IF e.ev = "pre" /\ e.fn = "ChargingPriceUpdate" THEN C11_Prices(Hh, T)
  ELSE C11_PriceFrame(B, T)

MonStep(Hh, B, T, e) ==
  LET upd == e.ev = "update" /\ e.v \in DOMAIN B.veh /\ e.v \in DOMAIN T.veh
      Hn  == HNext(Hh, B, T, e)
  IN
     (IF Has("C03") THEN C03_Step(Hh, B, T, e) \cup C03_Announced(B, T, e) ELSE {})
  \cup (IF Has("C09") /\ e.ev = "instr" /\ e.v \in DOMAIN B.veh
        THEN C09_Rejected(B, T, e.v, e.out) \cup C09_Effects(B, T, e.v, e.out)
             \cup (IF e.out = "invalid" THEN {} ELSE C09_Applied(B, T, e.v, e.nx, e.out))
             \cup (IF e.v \in Hh.instructed THEN {V("C09", "one_instruction_per_vehicle", "vehicle", e.v)} ELSE {})
             \cup (IF e.i \notin SeqToSet(Hh.final) THEN {V("C09", "attempted_is_final", "vehicle", e.v)} ELSE {})
        ELSE {})
  \cup (IF Has("C09") /\ e.ev = "stacks" THEN C09_Stacks(Hh, e) ELSE {})
  \cup (IF Has("C07") /\ e.ev \in {"instr", "update"} THEN C07_Step(B, T, e.v, e.ev = "update") ELSE {})
  \cup (IF Has("C10") /\ e.ev \in {"instr", "update"} THEN C10_Step(B, T) ELSE {})
  \cup (IF Has("C10") /\ e.ev = "gen" THEN C10_Builtin(B, e.name, e.instrs) ELSE {})
  \cup (IF Has("C12") /\ e.ev = "gen" THEN C12_Gen(Hh, B, e.name, e.instrs) ELSE {})
  \cup (IF Has("C18") /\ upd THEN C18_Step(B, T, e.v, LAMBDA a, b : Hh.vrank[a] < Hh.vrank[b], "") ELSE {})
  \cup (IF Has("C18") /\ e.ev \in {"instr", "update"} THEN C18_Join(B, T, e.v) ELSE {})
  \cup (IF Has("C18") /\ e.ev = "instr" /\ e.v \in DOMAIN B.veh /\ e.v \in DOMAIN T.veh
        THEN C18_Step(B, T, e.v, LAMBDA a, b : Hh.vrank[a] < Hh.vrank[b], "by_instruction/") ELSE {})
  \cup (IF Has("C04") THEN (IF upd /\ "num" \in DOMAIN e THEN C04_Update(B, T, e.v, e.num, e.out)
                            ELSE IF e.ev = "update" THEN {} ELSE C04_Frame(B, T)) ELSE {})
  \cup (IF Has("C05") /\ upd /\ "num" \in DOMAIN e THEN C05_Exact(T, e.v, e.num) ELSE {})
     \* "priced at that station's tariff ... at that time": the price in the state is the tariff table's price in force
  \cup (IF Has("C05") /\ e.ev = "pre" /\ e.fn = "ChargingPriceUpdate"
        THEN {V("C05", "tariff_in_force", x[3], x[4]) : x \in C11_Prices(Hh, T)} ELSE {})
  \cup (IF Has("C05") THEN (IF upd THEN C05_Update(B, T, e.v, SumOver(Hh.value, PickedNow(B, T, e), LAMBDA r : Hh.value[r]))
                            ELSE IF e.ev = "update" THEN {} ELSE C05_Frame(B, T)) ELSE {})
  \cup (IF Has("C06") THEN (IF upd THEN C06_Move(B, T, e.v, Hh.dt, IF "num" \in DOMAIN e /\ "rt_now" \in DOMAIN e.num THEN e.num.rt_now ELSE <<>>) \cup C06_Frame(B, T, TRUE, e.v) \cup C06_Arrived(T, Hn.arrived, e.v)
                                       \cup (IF "num" \in DOMAIN e THEN C06_Odo(B, T, e.v, e.num) \cup C06_Geo(B, e.v, e.num) ELSE {})
                            ELSE C06_Frame(B, T, FALSE, "")) ELSE {})
  \cup (IF Has("C15") THEN C15_Step(B, T, e.ev, Hh.dtc) ELSE {})
  \cup (IF Has("C11") THEN C11_Step(Hh, B, T, e) ELSE {})
  \cup (IF Has("C08") THEN C08_Immobile(B, T) \cup (IF "idx" \in DOMAIN e THEN C08_Snapshot(T, e.idx) ELSE {}) ELSE {})
  \cup (IF Has("C20") /\ e.ev = "drivers" THEN C20_Drivers(B, T, Hh.sched, Reports(e, "driver_schedule_event")) ELSE {})
  \cup (IF Has("C20") /\ e.ev = "gen" /\ e.name = "Dispatcher" THEN C20_Dispatch(B, e.instrs) ELSE {})
  \cup (IF e.ev = "end"
        THEN MonState(Hh, T)
             \cup (IF Has("C03") THEN C03_Conservation(Hn, T) ELSE {})
             \cup (IF Has("C18") THEN C18_Boundary(Hh.qbegin, T, LAMBDA a, b : Hh.vrank[a] < Hh.vrank[b]) ELSE {})
             \cup (IF Has("C04") THEN C04_State(T, Hh.cap, Hh.en0) ELSE {})
             \cup (IF Has("C05") THEN C05_Totals(T, Hh.disp0, Hn.fares, Hn.nev) ELSE {})
        ELSE {})

-----------------------------------------------------------------------------
TraceInit ==
  /\ l = 2
  /\ TLog[1].ev = "init"
  /\ S = Apply(Empty, TLog[1])
  /\ H = HInit(Apply(Empty, TLog[1]), TLog[1])
  /\ TLCSet(1, <<>>) /\ TLCSet(2, <<>>) /\ TLCSet(3, {}) /\ TLCSet(4, 1) /\ TLCSet(5, <<>>)

TraceNext ==
  /\ l <= Len(TLog)
  /\ LET e == TLog[l]
         B == IF e.ev = "init" THEN Empty ELSE S
         T == Apply(B, e)
     IN /\ S' = T
        /\ H' = IF e.ev = "init" THEN HInit(T, e) ELSE HNext(H, B, T, e)
        /\ IF e.ev = "init" THEN Record({}, {}, {}, l)
           ELSE Record(MonStep(H, B, T, e), Conformance(B, T, e) \cup ConfHooks(H, B, e) \cup ConfOrder(H, B, e), Coverage(B, T, e), l)
  /\ l' = l + 1

TraceSpec == TraceInit /\ [][TraceNext]_tvars

RegToSet(reg, a, b, c) ==
  {[p |-> k[1], c |-> k[2], s |-> k[3], line |-> reg[k].line, w |-> reg[k].w, n |-> reg[k].n] : k \in DOMAIN reg}

Done ==
  /\ PrintT(<<"VIOL", ToJson(RegToSet(TLCGet(1), "p", "c", "s"))>>)
  /\ PrintT(<<"DIVG", ToJson(RegToSet(TLCGet(2), "p", "c", "s"))>>)
  /\ PrintT(<<"COVR", ToJson(TLCGet(3))>>)
  /\ PrintT(<<"CNTS", ToJson({[k |-> c[2], n |-> TLCGet(5)[c]] : c \in DOMAIN TLCGet(5)})>>)
  /\ PrintT(<<"LINES", TLCGet(4), Len(TLog)>>)
  /\ TLCGet(4) = Len(TLog)
=============================================================================
