---------------------------- MODULE HiveMatchTrace ----------------------------
(* evaluates HiveMatch!DispatchOK on records of calls of the real Dispatcher (one ndjson line per call and fleet) *)
EXTENDS HiveMatch, Json, IOUtils
VARIABLES l
TLog == ndJsonDeserialize(IOEnv.TRACE_FILE)

Key(v) == <<v[1], v[2], v[3]>>
Merge(reg, vs, ln) ==
  LET keys == {Key(v) : v \in vs} IN
  [k \in DOMAIN reg \cup keys |->
     IF k \in DOMAIN reg THEN (IF k \in keys THEN [reg[k] EXCEPT !.n = @ + 1] ELSE reg[k])
     ELSE [line |-> ln, w |-> (CHOOSE v \in vs : Key(v) = k)[4], n |-> 1]]

TraceInit == l = 1 /\ TLCSet(1, <<>>) /\ TLCSet(3, {}) /\ TLCSet(4, 0)
TraceNext ==
  /\ l <= Len(TLog)
  /\ LET e == TLog[l]  vs == DispatchOK(e) IN
       /\ IF vs = {} THEN TRUE ELSE TLCSet(1, Merge(TLCGet(1), vs, l))
       /\ TLCSet(3, TLCGet(3) \cup {<<"Dispatch", ToString(Len(e.veh)) \o "x" \o ToString(Len(e.req)), IF e.fleet = "" THEN "nofleet" ELSE "fleet", "">>})
       /\ TLCSet(4, l)
  /\ l' = l + 1
TraceSpec == TraceInit /\ [][TraceNext]_l

RegToSet(reg) == {[p |-> k[1], c |-> k[2], s |-> k[3], line |-> reg[k].line, w |-> reg[k].w, n |-> reg[k].n] : k \in DOMAIN reg}
Done ==
  /\ PrintT(<<"VIOL", ToJson(RegToSet(TLCGet(1)))>>)
  /\ PrintT(<<"DIVG", ToJson({})>>)
  /\ PrintT(<<"COVR", ToJson(TLCGet(3))>>)
  /\ PrintT(<<"LINES", TLCGet(4), Len(TLog)>>)
  /\ TLCGet(4) = Len(TLog)
=============================================================================
