------------------------------ MODULE HiveEvents ------------------------------
(***************************************************************************)
(* C19 - the event log accounts for every state change.                    *)
(*                                                                         *)
(* Input: one line per time step holding (a) what the WRITTEN event.log    *)
(* says about the step (parsed back from the file the real EventfulHandler *)
(* wrote: station loads, charge / move / pickup / drop-off / cancel / add  *)
(* events) and (b) what happened in the state during that step (derived    *)
(* from the deltas recorded through the hooks), then a final line with the *)
(* end state and the summary of the real StatsHandler.  Quantities are     *)
(* fixed point (energy 1e-3, distance metres).  TLC keeps the running sums *)
(* as history variables and evaluates the clauses on every line.           *)
(***************************************************************************)
EXTENDS Naturals, Integers, Sequences, FiniteSets, TLC, Json, IOUtils

VARIABLES l, H, Hs    \* H: history sums [moved, charged (per vehicle), adds, cancels, nmove, ncharge]; Hs: HiveStats history
TLog == ndJsonDeserialize(IOEnv.TRACE_FILE)

V(p, c, sig, w) == <<p, c, sig, w>>
Abs(x) == IF x < 0 THEN -x ELSE x
SeqToSet(s) == {s[i] : i \in DOMAIN s}
SumWhere(sq, P(_), F(_)) ==
  LET RECURSIVE G(_)
      G(i) == IF i = 0 THEN 0 ELSE (IF P(sq[i]) THEN F(sq[i]) ELSE 0) + G(i - 1)
  IN G(Len(sq))
Count(sq, P(_)) == SumWhere(sq, P, LAMBDA x : 1)
\* the bag of a sequence, as a function from element to multiplicity
Bag(sq) == [x \in SeqToSet(sq) |-> Count(sq, LAMBDA y : y = x)]

H0 == [moved |-> <<>>, charged |-> <<>>, adds |-> 0, cancels |-> 0, nmove |-> <<>>, ncharge |-> <<>>, ldrop |-> {}]
Bump(f, k, d) == [x \in DOMAIN f \cup {k} |-> (IF x \in DOMAIN f THEN f[x] ELSE 0) + (IF x = k THEN d ELSE 0)]
BumpAll(f, sq, D(_)) ==
  [x \in DOMAIN f \cup {sq[i][1] : i \in DOMAIN sq} |->
     (IF x \in DOMAIN f THEN f[x] ELSE 0) + SumWhere(sq, LAMBDA y : y[1] = x, D)]

StepOK(e) ==
  LET log == e.log  st == e.state
      stations == {log.loads[i][1] : i \in DOMAIN log.loads} \cup {log.charges[i][2] : i \in DOMAIN log.charges}
      vehicles == {log.moves[i][1] : i \in DOMAIN log.moves} \cup {st.moved[i][1] : i \in DOMAIN st.moved}
  IN
     \* per station and step the reported load equals the sum of that step's charge events there
     {V("C19", "station_load_is_sum_of_charge_events", "station", s) : s \in {s \in stations :
         Abs(SumWhere(log.loads, LAMBDA x : x[1] = s, LAMBDA x : x[2]) - SumWhere(log.charges, LAMBDA x : x[2] = s, LAMBDA x : x[3]))
           > Count(log.charges, LAMBDA x : x[2] = s) + 1}}
  \cup (IF Count(log.loads, LAMBDA x : TRUE) # Cardinality({log.loads[i][1] : i \in DOMAIN log.loads})
        THEN {V("C19", "station_load_is_sum_of_charge_events", "one_load_event_per_station", e.i)} ELSE {})
     \* every pickup, drop-off, cancellation, admission and charging step that changes the state is reported exactly once
  \cup (IF Bag([i \in DOMAIN log.pickups |-> <<log.pickups[i][1], log.pickups[i][2]>>]) # Bag(st.picked)
        THEN {V("C19", "pickups_reported_exactly_once", "step", e.i)} ELSE {})
  \cup (IF Bag(log.dropoffs) # Bag(st.dropped) THEN {V("C19", "dropoffs_reported_exactly_once", "step", e.i)} ELSE {})
  \cup (IF Bag(log.cancels) # Bag(st.cancelled) THEN {V("C19", "cancellations_reported_exactly_once", "step", e.i)} ELSE {})
  \cup (IF Bag(log.adds) # Bag(st.added) THEN {V("C19", "admissions_reported_exactly_once", "step", e.i)} ELSE {})
  \cup (IF Bag([i \in DOMAIN log.charges |-> <<log.charges[i][1], log.charges[i][2]>>])
           # Bag([i \in DOMAIN st.charged |-> <<st.charged[i][1], st.charged[i][2]>>])
        THEN {V("C19", "charging_steps_reported_exactly_once", "step", e.i)}
        ELSE {V("C19", "charge_event_energy_matches_state", "vehicle", v) : v \in {v \in {st.charged[i][1] : i \in DOMAIN st.charged} :
                 Abs(SumWhere(log.charges, LAMBDA x : x[1] = v, LAMBDA x : x[3]) - SumWhere(st.charged, LAMBDA x : x[1] = v, LAMBDA x : x[3])) > 2}})
     \* a step's move events add up to the odometer change of the step
  \cup {V("C19", "move_events_match_odometer_step", "vehicle", v) : v \in {v \in vehicles :
         Abs(SumWhere(log.moves, LAMBDA x : x[1] = v, LAMBDA x : x[2]) - SumWhere(st.moved, LAMBDA x : x[1] = v, LAMBDA x : x[2]))
           > Count(log.moves, LAMBDA x : x[1] = v) + 1}}
     \* every pickup reports a waiting time between zero and the cancellation timeout plus one step
  \cup {V("C19", "pickup_wait_in_range", IF log.pickups[i][3] > 80000 THEN "wraps_to_a_day" ELSE "out_of_range", log.pickups[i][1]) :
         i \in {i \in DOMAIN log.pickups : ~(0 <= log.pickups[i][3] /\ log.pickups[i][3] <= e.cancel + e.dt)}}
     \* every line of the log parses back, with the fields its type requires
  \cup (IF log.bad > 0 THEN {V("C19", "log_lines_parse", "step", e.i)} ELSE {})

FinalOK(Hh, e) ==
     {V("C19", "move_events_sum_to_odometer", "vehicle", e.odo[i][1]) : i \in {i \in DOMAIN e.odo :
         LET v == e.odo[i][1] IN
         Abs((IF v \in DOMAIN Hh.moved THEN Hh.moved[v] ELSE 0) - e.odo[i][2]) > (IF v \in DOMAIN Hh.nmove THEN Hh.nmove[v] ELSE 0) + 1}}
  \cup {V("C19", "charge_events_sum_to_energy_gained", "vehicle", e.gained[i][1]) : i \in {i \in DOMAIN e.gained :
         LET v == e.gained[i][1] IN
         Abs((IF v \in DOMAIN Hh.charged THEN Hh.charged[v] ELSE 0) - e.gained[i][2]) > (IF v \in DOMAIN Hh.ncharge THEN Hh.ncharge[v] ELSE 0) + 1}}
     \* every request that was picked up has a drop-off record, unless it is still on board or its vehicle ran dry
  \cup (IF "picked_all" \notin DOMAIN e THEN {} ELSE
        {V("C19", "dropoffs_reported_exactly_once", "picked_up_never_dropped_off", r) :
           r \in SeqToSet(e.picked_all) \ (Hh.ldrop \cup SeqToSet(e.onboard) \cup SeqToSet(e.stranded))})
  \cup (IF e.summary.requests # Hh.adds THEN {V("C19", "summary_requests_equal_add_events", "summary", "requests")} ELSE {})
  \cup (IF e.summary.cancelled # Hh.cancels THEN {V("C19", "summary_cancellations_equal_cancel_events", "summary", "cancelled")} ELSE {})
  \cup (LET total == SumWhere([i \in DOMAIN e.odo |-> e.odo[i]], LAMBDA x : x[1] \in DOMAIN Hh.moved, LAMBDA x : Hh.moved[x[1]])
             n == SumWhere([i \in DOMAIN e.odo |-> e.odo[i]], LAMBDA x : x[1] \in DOMAIN Hh.nmove, LAMBDA x : Hh.nmove[x[1]])
         IN IF Abs(e.summary.vkt - total) > n + 2 THEN {V("C19", "summary_distance_equals_move_events", "summary", "vkt")} ELSE {})

HNext(Hh, e) ==
  [moved |-> BumpAll(Hh.moved, e.log.moves, LAMBDA x : x[2]),
   nmove |-> BumpAll(Hh.nmove, e.log.moves, LAMBDA x : 1),
   charged |-> BumpAll(Hh.charged, e.log.charges, LAMBDA x : x[3]),
   ncharge |-> BumpAll(Hh.ncharge, e.log.charges, LAMBDA x : 1),
   adds |-> Hh.adds + Len(e.log.adds), cancels |-> Hh.cancels + Len(e.log.cancels),
   ldrop |-> Hh.ldrop \cup {e.log.dropoffs[i][1] : i \in DOMAIN e.log.dropoffs}]      \* requests the log reports as dropped off

\* the time-step statistics rows (spec/HiveStats.tla): mismatches are conformance divergences, never verdicts
ST == INSTANCE HiveStats
StatsDivg(Hh, Hst, e) ==
  IF e.k = "stats" THEN ST!RowOK(e)
  ELSE IF e.k = "final" THEN ST!SummaryOK(Hst, Hh.adds, Hh.cancels, e)
  ELSE IF e.k = "stats_abort" THEN {<<"Stats", "handler_raised", e.error, ToString(e.n)>>}
  ELSE IF e.k = "stats_file" THEN {<<"Stats", "file_reads_back", e.what, ToString(e.rows)>>}
  ELSE {}

Key(v) == <<v[1], v[2], v[3]>>
Merge(reg, vs, ln) ==
  LET keys == {Key(v) : v \in vs} IN
  [k \in DOMAIN reg \cup keys |->
     IF k \in DOMAIN reg THEN (IF k \in keys THEN [reg[k] EXCEPT !.n = @ + 1] ELSE reg[k])
     ELSE [line |-> ln, w |-> (CHOOSE v \in vs : Key(v) = k)[4], n |-> 1]]

TraceInit == l = 1 /\ H = H0 /\ Hs = ST!Hs0 /\ TLCSet(1, <<>>) /\ TLCSet(2, <<>>) /\ TLCSet(3, {}) /\ TLCSet(4, 0)
TraceNext ==
  /\ l <= Len(TLog)
  /\ LET e == TLog[l]
         vs == IF e.k = "step" THEN StepOK(e) ELSE IF e.k = "final" THEN FinalOK(H, e) ELSE {}
     IN /\ H' = IF e.k = "start" THEN H0 ELSE IF e.k = "step" THEN HNext(H, e) ELSE H
        /\ Hs' = IF e.k = "start" THEN ST!Hs0 ELSE ST!HsNext(Hs, e)
        /\ IF vs = {} THEN TRUE ELSE TLCSet(1, Merge(TLCGet(1), vs, l))
        /\ LET ds == StatsDivg(H, Hs, e) IN IF ds = {} THEN TRUE ELSE TLCSet(2, Merge(TLCGet(2), ds, l))
        /\ TLCSet(3, TLCGet(3) \cup (IF e.k = "step" THEN {<<"events", x, "", "">> : x \in
              (IF e.log.pickups # <<>> THEN {"pickup"} ELSE {}) \cup (IF e.log.charges # <<>> THEN {"charge"} ELSE {})
              \cup (IF e.log.cancels # <<>> THEN {"cancel"} ELSE {}) \cup (IF e.log.moves # <<>> THEN {"move"} ELSE {})
              \cup (IF e.log.dropoffs # <<>> THEN {"dropoff"} ELSE {})}
              ELSE IF e.k = "stats" THEN {<<"stats_row", IF e.fleet = "" THEN "global" ELSE IF e.fleet = "none" THEN "no_fleet" ELSE "fleet", "", "">>}
              ELSE {<<e.k, "", "", "">>}))
        /\ TLCSet(4, l)
  /\ l' = l + 1
TraceSpec == TraceInit /\ [][TraceNext]_<<l, H, Hs>>

RegToSet(reg) == {[p |-> k[1], c |-> k[2], s |-> k[3], line |-> reg[k].line, w |-> reg[k].w, n |-> reg[k].n] : k \in DOMAIN reg}
Done ==
  /\ PrintT(<<"VIOL", ToJson(RegToSet(TLCGet(1)))>>)
  /\ PrintT(<<"DIVG", ToJson(RegToSet(TLCGet(2)))>>)
  /\ PrintT(<<"COVR", ToJson(TLCGet(3))>>)
  /\ PrintT(<<"LINES", TLCGet(4), Len(TLog)>>)
  /\ TLCGet(4) = Len(TLog)
=============================================================================
