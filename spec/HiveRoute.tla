------------------------------ MODULE HiveRoute ------------------------------
(***************************************************************************)
(* C13 - routes are connected paths from origin to destination; snapping   *)
(*       yields a position on the link it names.                           *)
(* C14 - on a street graph the inner part of a route (end of the origin    *)
(*       link .. start of the destination link) is a fastest path.         *)
(*                                                                         *)
(* Declarative definitions evaluated by TLC on records of calls of the     *)
(* REAL RoadNetwork.route / position_from_geoid / link_from_link_id.       *)
(* For a small graph (line "graph" with fw = TRUE) TLC computes all-pairs  *)
(* fastest times itself (Floyd-Warshall below) and every query is compared *)
(* with it.  For a large graph each query carries node potentials; TLC     *)
(* checks that they are FEASIBLE (pi[src] = 0, pi[v] <= pi[u] + w(u,v) for *)
(* every edge), which makes pi[dst] a lower bound for every path - a wrong *)
(* certificate can therefore never hide a slower-than-optimal route.       *)
(* Times are integer milliseconds.                                         *)
(***************************************************************************)
EXTENDS Naturals, Integers, Sequences, FiniteSets, TLC, Json, IOUtils

CONSTANTS Enabled
VARIABLES l, g        \* g: the current graph [n, w (matrix of direct edge weights), sp (all-pairs fastest times or <<>>), edges]
TLog == ndJsonDeserialize(IOEnv.TRACE_FILE)

INF == 100000000
V(p, c, sig, w) == <<p, c, sig, w>>
Min2(a, b) == IF a <= b THEN a ELSE b

(* graph nodes are re-indexed 1..n by the harness; edges = <<u, v, w>> *)
Direct(n, edges) ==
  [p \in (1..n) \X (1..n) |->
     IF p[1] = p[2] THEN 0
     ELSE LET ws == {edges[k][3] : k \in {k \in DOMAIN edges : edges[k][1] = p[1] /\ edges[k][2] = p[2]}} IN
          IF ws = {} THEN INF ELSE CHOOSE x \in ws : \A y \in ws : x <= y]

\* matrices are FLAT functions over pairs and forced with TLCEval at every level: TLC evaluates nested function
\* constructors lazily, which would re-evaluate the previous level three times per entry (3^n)
RECURSIVE FW(_, _, _)
FW(D, k, n) ==
  IF k > n THEN D
  ELSE FW(TLCEval([p \in (1..n) \X (1..n) |->
             Min2(D[p], IF D[<<p[1], k>>] >= INF \/ D[<<k, p[2]>>] >= INF THEN INF ELSE D[<<p[1], k>>] + D[<<k, p[2]>>])]), k + 1, n)

LoadGraph(e) ==
  LET W == TLCEval(Direct(e.n, e.edges)) IN
  [n |-> e.n, w |-> IF e.fw THEN W ELSE <<>>, sp |-> IF e.fw THEN TLCEval(FW(W, 1, e.n)) ELSE <<>>, edges |-> e.edges, id |-> e.id, slack |-> e.slack]

-----------------------------------------------------------------------------
(* C13 *)
RouteOK(e) ==
  LET r == e.route  n == Len(r) IN
  IF n = 0 THEN (IF ~e.same THEN {V("C13", "empty_only_if_same_position", e.net, e.id)} ELSE {})
  ELSE
     (IF r[1][2] # e.o.geoid THEN {V("C13", "starts_at_origin", e.net, e.id)} ELSE {})
  \cup (IF r[n][3] # e.d.geoid THEN {V("C13", "ends_at_destination", e.net, e.id)} ELSE {})
  \cup (IF \E i \in 1..(n - 1) : r[i][3] # r[i + 1][2] THEN {V("C13", "consecutive_links_join", e.net, e.id)} ELSE {})
  \cup (IF \E i \in 1..n : ~r[i][6] THEN {V("C13", "links_exist", e.net, e.id)} ELSE {})
     \* every link runs between the network's end points of that link, except where the query's positions cut it
  \cup (IF \E i \in 1..n : (i > 1 /\ r[i][2] # r[i][4]) \/ (i < n /\ r[i][3] # r[i][5])
        THEN {V("C13", "links_are_network_links", e.net, e.id)} ELSE {})

SnapOK(e) ==
     (IF ~e.exists THEN {V("C13", "snap_names_existing_link", e.net, e.id)} ELSE {})
  \cup (IF ~e.on_link THEN {V("C13", "snap_lies_on_link", e.net, e.id)} ELSE {})

-----------------------------------------------------------------------------
(* C14 *)
RECURSIVE PathTime(_, _, _)
PathTime(W, inner, i) == IF i > Len(inner) THEN 0 ELSE W[<<inner[i][1], inner[i][2]>>] + PathTime(W, inner, i + 1)

Optimal(G, e) ==
  LET inner == e.inner  k == Len(inner) IN
  IF e.net # "osm" \/ e.route = <<>> THEN {}
  ELSE
     \* the inner part is a walk from the end of the origin link to the start of the destination link
     (IF (k = 0 /\ e.onode # e.dnode)
         \/ (k > 0 /\ (inner[1][1] # e.onode \/ inner[k][2] # e.dnode \/ \E i \in 1..(k - 1) : inner[i][2] # inner[i + 1][1]))
      THEN {V("C14", "inner_route_joins_the_two_junctions", G.id, e.id)}
      ELSE IF G.sp # <<>> THEN
           (IF PathTime(G.w, inner, 1) > G.sp[<<e.onode, e.dnode>>] + k + 1 + G.slack
            THEN {V("C14", "fastest_path", "small_graph", e.id)} ELSE {})
      ELSE IF "pi" \in DOMAIN e THEN
           LET pi == e.pi          \* sequence indexed by node
               feasible == pi[e.onode] = 0 /\ \A x \in DOMAIN G.edges : pi[G.edges[x][2]] <= pi[G.edges[x][1]] + G.edges[x][3] + 1
           IN IF ~feasible THEN {V("MACHINERY", "certificate_infeasible", G.id, e.id)}
              ELSE IF e.tt > pi[e.dnode] + k + 1 + G.slack THEN {V("C14", "fastest_path", "certificate", e.id)} ELSE {}
      ELSE {})

-----------------------------------------------------------------------------
Key(v) == <<v[1], v[2], v[3]>>
Merge(reg, vs, ln) ==
  LET keys == {Key(v) : v \in vs} IN
  [k \in DOMAIN reg \cup keys |->
     IF k \in DOMAIN reg THEN (IF k \in keys THEN [reg[k] EXCEPT !.n = @ + 1] ELSE reg[k])
     ELSE [line |-> ln, w |-> (CHOOSE v \in vs : Key(v) = k)[4], n |-> 1]]

NoGraph == [n |-> 0, w |-> <<>>, sp |-> <<>>, edges |-> <<>>, id |-> "", slack |-> 0]
TraceInit == l = 1 /\ g = NoGraph /\ TLCSet(1, <<>>) /\ TLCSet(3, {}) /\ TLCSet(4, 0)
TraceNext ==
  /\ l <= Len(TLog)
  /\ LET e == TLog[l]
         vs == IF e.k = "route" THEN (IF "C13" \in Enabled THEN RouteOK(e) ELSE {}) \cup (IF "C14" \in Enabled THEN Optimal(g, e) ELSE {})
               ELSE IF e.k = "snap" THEN (IF "C13" \in Enabled THEN SnapOK(e) ELSE {}) ELSE {}
     IN /\ g' = IF e.k = "graph" THEN LoadGraph(e) ELSE g
        /\ IF vs = {} THEN TRUE ELSE TLCSet(1, Merge(TLCGet(1), vs, l))
        /\ TLCSet(3, TLCGet(3) \cup {<<e.k, IF e.k = "route" THEN e.cls ELSE "", IF "net" \in DOMAIN e THEN e.net ELSE "", "">>})
        /\ TLCSet(4, l)
  /\ l' = l + 1
TraceSpec == TraceInit /\ [][TraceNext]_<<l, g>>

RegToSet(reg) == {[p |-> k[1], c |-> k[2], s |-> k[3], line |-> reg[k].line, w |-> reg[k].w, n |-> reg[k].n] : k \in DOMAIN reg}
Done ==
  /\ PrintT(<<"VIOL", ToJson(RegToSet(TLCGet(1)))>>)
  /\ PrintT(<<"DIVG", ToJson({})>>)
  /\ PrintT(<<"COVR", ToJson(TLCGet(3))>>)
  /\ PrintT(<<"LINES", TLCGet(4), Len(TLog)>>)
  /\ TLCGet(4) = Len(TLog)
=============================================================================
