---------------------------- MODULE HiveRouteModel ----------------------------
(***************************************************************************)
(* C13 (model part) - the CONSTRUCTION of a street-graph route,            *)
(* osm_roadnetwork.route + osm_roadnetwork_ops.resolve_route_src_dst_      *)
(* positions, on a small strongly connected digraph:                       *)
(*   route(o, d) = <origin link from o to its end>                         *)
(*                 o <links of a node path from end(o.link) to             *)
(*                    start(d.link)>                                       *)
(*                 o <destination link from its start to d>                *)
(* and the empty route exactly when the two positions are equal.           *)
(* A position is a link and a cell offset 0..2 on it (0 = the cell of the  *)
(* link's start junction, 2 = the cell of its end junction, 1 = interior). *)
(* Every pair of positions (same link before / after, adjacent links, both *)
(* directions of a street, ends and interiors) and EVERY simple node path  *)
(* is explored; the property is the route contract RouteOK that the trace  *)
(* check (HiveRoute!RouteOK) evaluates on the real router.                 *)
(***************************************************************************)
EXTENDS Naturals, Sequences, FiniteSets, TLC

Nodes == 1..4
\* a two-way street 1<->2, a one-way ring 2->3->4->1 and a one-way chord 1->3
Links == {<<1, 2>>, <<2, 1>>, <<2, 3>>, <<3, 4>>, <<4, 1>>, <<1, 3>>}
Pos == Links \X (0..2)

VARIABLES o, d, path
vars == <<o, d, path>>

\* the cell of a position: junction cells are shared by all links that meet there
Cell(lk, off) == IF off = 0 THEN <<"node", lk[1]>> ELSE IF off = 2 THEN <<"node", lk[2]>> ELSE <<"mid", lk>>

SimplePaths(a, b) ==
  {p \in UNION {[1..n -> Nodes] : n \in 1..4} :
     /\ p[1] = a /\ p[Len(p)] = b
     /\ \A i, j \in DOMAIN p : i # j => p[i] # p[j]
     /\ \A i \in 1..(Len(p) - 1) : <<p[i], p[i + 1]>> \in Links}

Init == o \in Pos /\ d \in Pos /\ path \in SimplePaths(o[1][2], d[1][1])
Next == UNCHANGED vars
Spec == Init /\ [][Next]_vars

\* a route link: <<link, start cell, end cell>>
Route ==
  IF o = d THEN <<>>
  ELSE <<<<o[1], Cell(o[1], o[2]), Cell(o[1], 2)>>>>
       \o [i \in 1..(Len(path) - 1) |-> <<<<path[i], path[i + 1]>>, Cell(<<path[i], path[i + 1]>>, 0), Cell(<<path[i], path[i + 1]>>, 2)>>]
       \o <<<<d[1], Cell(d[1], 0), Cell(d[1], d[2])>>>>

RouteOK ==
  LET r == Route  n == Len(r) IN
  /\ (n = 0) = (o = d)
  /\ n > 0 =>
       /\ r[1][2] = Cell(o[1], o[2])
       /\ r[n][3] = Cell(d[1], d[2])
       /\ \A i \in 1..(n - 1) : r[i][3] = r[i + 1][2]
       /\ \A i \in 1..n : r[i][1] \in Links
=============================================================================
