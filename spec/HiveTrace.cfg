SPECIFICATION TraceSpec
CONSTANTS
  FixOOS = FALSE
  FixCB = FALSE
  FixFull = FALSE
  FixQueuePlug = FALSE
  Enabled = {"C02", "C03", "C07", "C09", "C10", "C17", "C18"}
POSTCONDITION Done
CHECK_DEADLOCK FALSE
