------------------------------ MODULE HiveModel ------------------------------
(***************************************************************************)
(* Bounded model of the HIVE step pipeline driven by an ADVERSARIAL        *)
(* controller: in every step, every vehicle may receive any instruction    *)
(* (valid or not) naming any target, requests arrive and are cancelled at  *)
(* will, and the numeric outcomes of moving / idling / charging are drawn  *)
(* from small sets.  The activity state machine itself is HiveCore, the    *)
(* same operators the trace specification checks the implementation        *)
(* against.                                                                *)
(*                                                                         *)
(* Pipeline (StepSimulation.update): pre (request arrivals/cancellations)  *)
(* -> instr (instructions popped in DESCENDING vehicle id order, each      *)
(* applied all-or-nothing) -> upd (vehicle updates: non-queueing vehicles  *)
(* by id, then queueing vehicles by (enqueue time, id); the order is fixed *)
(* once, as perform_vehicle_state_updates does) -> tick.                   *)
(***************************************************************************)
EXTENDS HiveProps, Json

CONSTANTS
  Vehicles,      \* set of vehicle ids (strings)
  VRank,         \* [Vehicles -> Nat]: Python's string order of the ids
  VDef,          \* [Vehicles -> [pos, fleets, kind, pool, en]] initial placement
  StDef,         \* [stations -> [pos, fleets, pl : [plugs -> [tot, kind]]]]
  BsDef,         \* [bases -> [pos, fleets, tot, st]]
  RqDef,         \* [requests -> [pos, dpos, fleets, pool]]
  Cells,         \* named cells instructions may reposition to
  MaxE,          \* energy capacity (integer units)
  MaxT,          \* number of steps explored
  MoveCosts, IdleCosts,   \* subsets of 0..1: energy a move / an idle step may cost
  Kinds,         \* instruction kinds the adversary may issue
  BogusTargets,  \* ids of non-existent entities the adversary may also name
  RecordHist     \* TRUE: keep the controller's choices in `hist` (simulation mode, schedule export)

VARIABLES veh, st, bs, req, seen, now, ph, todo, order, hist
vars == <<veh, st, bs, req, seen, now, ph, todo, order, hist>>

\* the controller's / environment's choices, exported as schedules for the real code (never read by any action)
Log(rec) == hist' = IF RecordHist THEN Append(hist, rec) ELSE hist

S0 == [veh |-> veh, st |-> st, bs |-> bs, req |-> req, now |-> now, ord |-> VRank]
S1 == [veh |-> veh', st |-> st', bs |-> bs', req |-> req', now |-> now', ord |-> VRank]

Road == "road"          \* en route: co-located with no entity
LinkOf(c) == c          \* entities sit on the link named after their cell; a vehicle that moved is on "x"

SetEn(r, e) == [r EXCEPT !.en = e, !.full = (e >= MaxE), !.empty = (e <= 0)]

Init ==
  /\ veh = [v \in Vehicles |->
       SetEn([act |-> "Idle", pos |-> VDef[v].pos, lnk |-> LinkOf(VDef[v].pos), tgt |-> None, plug |-> None,
              rn |-> 0, rs |-> None, re |-> None, enq |-> -1, ob |-> None, obdest |-> {},
              en |-> 0, full |-> FALSE, empty |-> FALSE, hop |-> 0, arr |-> 0,
              fleets |-> VDef[v].fleets, kind |-> VDef[v].kind, pool |-> VDef[v].pool], VDef[v].en)]
  /\ st = [s \in DOMAIN StDef |->
       [pos |-> StDef[s].pos, lnk |-> LinkOf(StDef[s].pos), fleets |-> StDef[s].fleets,
        pl |-> [p \in DOMAIN StDef[s].pl |->
                 [tot |-> StDef[s].pl[p].tot, av |-> StDef[s].pl[p].tot, qn |-> 0, kind |-> StDef[s].pl[p].kind]]]]
  /\ bs = [b \in DOMAIN BsDef |->
       [pos |-> BsDef[b].pos, lnk |-> LinkOf(BsDef[b].pos), fleets |-> BsDef[b].fleets,
        tot |-> BsDef[b].tot, stall |-> BsDef[b].tot, st |-> BsDef[b].st]]
  /\ req = <<>>
  /\ seen = {}
  /\ now = 0 /\ ph = "pre" /\ todo = Vehicles /\ order = <<>> /\ hist = <<>>

Commit(S) == veh' = S.veh /\ st' = S.st /\ bs' = S.bs /\ req' = S.req

-----------------------------------------------------------------------------
(* pre-step: request arrivals (UpdateRequestsFromFile) and cancellations (CancelRequests) *)
NewReq(r) ==
  [pos |-> RqDef[r].pos, lnk |-> LinkOf(RqDef[r].pos), dpos |-> RqDef[r].dpos, dlnk |-> LinkOf(RqDef[r].dpos),
   fleets |-> RqDef[r].fleets, pool |-> RqDef[r].pool, paxdest |-> {RqDef[r].dpos}, disp |-> None, dtime |-> -1]

Admit(r) ==
  /\ ph = "pre" /\ r \notin seen
  /\ seen' = seen \cup {r}
  /\ req' = [x \in DOMAIN req \cup {r} |-> IF x = r THEN NewReq(r) ELSE req[x]]
  /\ Log([a |-> "admit", r |-> r, t |-> now])
  /\ UNCHANGED <<veh, st, bs, now, ph, todo, order>>

Cancel(r) ==
  /\ ph = "pre" /\ r \in DOMAIN req
  /\ req' = [x \in DOMAIN req \ {r} |-> req[x]]
  /\ Log([a |-> "cancel", r |-> r, t |-> now])
  /\ UNCHANGED <<veh, st, bs, seen, now, ph, todo, order>>

StartInstr ==
  /\ ph = "pre" /\ ph' = "instr" /\ todo' = Vehicles
  /\ UNCHANGED <<veh, st, bs, req, seen, now, order, hist>>

-----------------------------------------------------------------------------
(* instructions: the route an Instruction computes runs from the vehicle to the target; it is empty  *)
(* exactly when the two EntityPositions coincide                                                      *)
RouteTo(r, tpos, tlnk) ==
  IF r.pos = tpos /\ r.lnk = tlnk THEN [rn |-> 0, rs |-> None, re |-> None]
  ELSE [rn |-> 1, rs |-> r.pos, re |-> tpos]

Stations == DOMAIN StDef
Bases    == DOMAIN BsDef
Requests == DOMAIN RqDef
AllPlugs == UNION {DOMAIN StDef[s].pl : s \in Stations} \cup {"nosuchplug"}

Instructions ==
     {[kind |-> k, tgt |-> None, plug |-> None] : k \in {"Idle", "OutOfService"} \cap Kinds}
  \cup {[kind |-> "Reposition", tgt |-> c, plug |-> None] : c \in IF "Reposition" \in Kinds THEN Cells ELSE {}}
  \cup {[kind |-> "DispatchTrip", tgt |-> r, plug |-> None] :
          r \in IF "DispatchTrip" \in Kinds THEN Requests \cup (BogusTargets \cap {"r?"}) ELSE {}}
  \cup {[kind |-> k, tgt |-> s, plug |-> p] :
          k \in {"DispatchStation", "ChargeStation"} \cap Kinds, s \in Stations \cup (BogusTargets \cap {"s?"}), p \in AllPlugs}
  \cup {[kind |-> k, tgt |-> b, plug |-> None] :
          k \in {"DispatchBase", "ReserveBase"} \cap Kinds, b \in Bases \cup (BogusTargets \cap {"b?"})}
  \cup {[kind |-> "ChargeBase", tgt |-> b, plug |-> p] :
          b \in IF "ChargeBase" \in Kinds THEN Bases \cup (BogusTargets \cap {"b?"}) ELSE {}, p \in AllPlugs}

NextOf(S, v, i) ==
  LET r == S.veh[v]  a == ActOfInstruction(i.kind) IN
  CASE i.kind = "DispatchTrip" ->
         LET rt == RouteTo(r, S.req[i.tgt].pos, S.req[i.tgt].lnk) IN Nx(a, i.tgt, None, rt.rn, rt.rs, rt.re, -1)
    [] i.kind = "DispatchStation" ->
         LET rt == RouteTo(r, S.st[i.tgt].pos, S.st[i.tgt].lnk) IN Nx(a, i.tgt, i.plug, rt.rn, rt.rs, rt.re, -1)
    [] i.kind = "DispatchBase" ->
         LET rt == RouteTo(r, S.bs[i.tgt].pos, S.bs[i.tgt].lnk) IN Nx(a, i.tgt, None, rt.rn, rt.rs, rt.re, -1)
    [] i.kind = "Reposition" ->
         LET rt == RouteTo(r, i.tgt, LinkOf(i.tgt)) IN Nx(a, None, None, rt.rn, rt.rs, rt.re, -1)
    [] OTHER -> Nx(a, i.tgt, i.plug, 0, None, None, -1)

MaxRank(vs) == CHOOSE v \in vs : \A w \in vs : VRank[w] <= VRank[v]

Instruct ==
  /\ ph = "instr" /\ todo # {}
  /\ LET v == MaxRank(todo) IN
       /\ todo' = todo \ {v}
       /\ \/ UNCHANGED <<veh, st, bs, req, hist>>                            \* no instruction for v
          \/ \E i \in Instructions :
               /\ Log([a |-> "instr", v |-> v, kind |-> i.kind, tgt |-> i.tgt, plug |-> i.plug, t |-> now])
               /\ IF InstructionInvalid(S0, v, i) THEN UNCHANGED <<veh, st, bs, req>>
                  ELSE LET R == TransOp(S0, v, NextOf(S0, v, i)) IN
                       IF R.ok THEN Commit([R.S EXCEPT !.veh[v].hop = 0])
                       ELSE UNCHANGED <<veh, st, bs, req>>
  /\ UNCHANGED <<seen, now, ph, order>>

-----------------------------------------------------------------------------
(* update order: perform_vehicle_state_updates._sort_by_vehicle_state *)
Before(a, b) ==
  LET qa == veh[a].act = "ChargeQueueing"  qb == veh[b].act = "ChargeQueueing" IN
  IF qa # qb THEN qb
  ELSE IF qa /\ veh[a].enq # veh[b].enq THEN veh[a].enq < veh[b].enq
  ELSE VRank[a] < VRank[b]

OrderSeq ==
  CHOOSE s \in [1..Cardinality(Vehicles) -> Vehicles] :
    /\ \A i, j \in DOMAIN s : i < j => Before(s[i], s[j])
    /\ \A v \in Vehicles : \E i \in DOMAIN s : s[i] = v

StartUpdate ==
  /\ ph = "instr" /\ todo = {}
  /\ ph' = "upd" /\ order' = OrderSeq
  /\ UNCHANGED <<veh, st, bs, req, seen, now, todo, hist>>

(* numeric outcomes of an update, as (prm, energy after) choices *)
WillMove(S, v) ==     \* the activity performed after a possible default transition moves along a route
  LET r == S.veh[v] IN r.act \in Moving /\ r.rn > 0

UpdateChoices(v) ==
  \* the activity that performs the update, after the default transition (if any)
  LET T == IF Terminal(S0, v) /\ DefaultNext(S0, v).k = "next"
           THEN TransOp(S0, v, DefaultNext(S0, v).nx) ELSE Ok(S0)
      A == IF T.ok THEN T.S ELSE S0
      r == A.veh[v]
      hop == IF Terminal(S0, v) THEN 0 ELSE r.hop IN
  IF r.act \in Moving /\ r.rn > 0 THEN
       {[mv |-> "oos", cost |-> 0, hop |-> 0] : c \in {c \in MoveCosts : c >= r.en}}
       \cup {[mv |-> "arr", cost |-> c, hop |-> 0] : c \in {c \in MoveCosts : c < r.en}}
       \cup {[mv |-> "part", cost |-> c, hop |-> 1] : c \in {c \in MoveCosts : c < r.en /\ hop = 0}}
  ELSE IF r.act \in {"Idle", "ChargeQueueing"} THEN {[mv |-> "stay", cost |-> c, hop |-> 0] : c \in IdleCosts}
  ELSE IF r.act \in {"ChargingStation", "ChargingBase"} THEN {[mv |-> "stay", cost |-> -1, hop |-> 0]}
  ELSE {[mv |-> "stay", cost |-> 0, hop |-> 0]}

ApplyNumeric(S, v, c) ==
  LET r == S.veh[v]
      e == IF c.cost < 0 THEN (IF r.en < MaxE THEN r.en + 1 ELSE r.en)      \* charging gains one unit
           ELSE IF r.en > c.cost THEN r.en - c.cost ELSE 0 IN
  [S EXCEPT !.veh[v] = [SetEn(r, e) EXCEPT !.hop = c.hop]]

Update ==
  /\ ph = "upd" /\ order # <<>>
  /\ LET v == Head(order) IN
       \E c \in UpdateChoices(v) :
         LET prm == [mv |-> c.mv, npos |-> Road, nlnk |-> "x", nrn |-> 1]
             R == UpdateOp(S0, v, prm) IN
         \* arr counts consecutive updates that begin with an exhausted route and end in the same travelling activity
         LET stays(T) == veh[v].act \in Moving /\ veh[v].rn = 0 /\ T.veh[v].act = veh[v].act /\ T.veh[v].tgt = veh[v].tgt
             Mark(T) == [T EXCEPT !.veh[v].arr = IF stays(T) THEN veh[v].arr + 1 ELSE 0] IN
         IF R.ok THEN Commit(Mark(IF c.mv = "oos" THEN R.S ELSE ApplyNumeric(R.S, v, c)))
         ELSE Commit(Mark(S0))
  /\ order' = Tail(order)
  /\ UNCHANGED <<seen, now, ph, todo, hist>>

Tick ==
  /\ ph = "upd" /\ order = <<>>
  /\ ph' = "pre" /\ now' = now + 1 /\ todo' = Vehicles
  /\ UNCHANGED <<veh, st, bs, req, seen, order, hist>>

Next ==
  \/ \E r \in Requests : Admit(r) \/ Cancel(r)
  \/ StartInstr \/ Instruct \/ StartUpdate \/ Update \/ Tick

Spec == Init /\ [][Next]_vars

TimeBound == now < MaxT \/ (now = MaxT /\ ph = "pre" /\ todo = Vehicles)

\* simulation mode: print the controller's choices of every behaviour when it reaches the depth bound
ExportAt(D) == TLCGet("level") < D \/ PrintT(<<"BEH", ToJson(hist)>>)

-----------------------------------------------------------------------------
(* properties *)
VLess(a, b) == VRank[a] < VRank[b]

Inv_C02 == C02_State(S0) = {}
Inv_C07 == C07_State(S0) = {}
Inv_C10 == C10_State(S0) = {}
Inv_C17 == C17_State(S0) = {}
Inv_C03 == C03_OneCarrier(S0) = {}
\* integer energy: bounds, the full / empty flags, and "an empty vehicle does not move" (checked as a step property)
Inv_C04 == \A v \in Vehicles : /\ veh[v].en \in 0..MaxE
                               /\ veh[v].full = (veh[v].en >= MaxE) /\ veh[v].empty = (veh[v].en <= 0)
Step_C04 == \A v \in Vehicles : veh'[v].pos # veh[v].pos => (veh[v].en > 0 /\ ~veh'[v].empty /\ ph = "upd")
Prop_C04 == [][Step_C04]_vars
\* a vehicle whose route is exhausted leaves the travelling activity at its next update
Inv_C06 == \A v \in Vehicles : veh[v].arr = 0
\* only the tick changes the time, by exactly one step
Prop_C15 == [][now' = now \/ (ph = "upd" /\ order = <<>> /\ now' = now + 1)]_vars

\* at step boundaries only (the statements say "after every time step")
AtBoundary == ph = "pre"
InvB_C02 == AtBoundary => Inv_C02
InvB_C07 == AtBoundary => Inv_C07
InvB_C17 == AtBoundary => Inv_C17

Step_C18 == ph \in {"upd", "instr"} => \A v \in Vehicles : C18_Step(S0, S1, v, VLess, "") = {} /\ C18_Join(S0, S1, v) = {}
Step_C03 == ph = "instr" => \A v \in Vehicles : C03_NoDivert(S0, S1, v) = {}
Step_C10 == C10_Step(S0, S1) = {}
Prop_C18 == [][Step_C18]_vars
Prop_C03 == [][Step_C03]_vars
Prop_C10 == [][Step_C10]_vars

TypeOK ==
  /\ \A v \in Vehicles : veh[v].act \in Acts /\ veh[v].en \in 0..MaxE
  /\ \A s \in DOMAIN st : \A p \in DOMAIN st[s].pl : st[s].pl[p].av \in 0..st[s].pl[p].tot
=============================================================================
