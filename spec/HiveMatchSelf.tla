---------------------------- MODULE HiveMatchSelf ----------------------------
(* self check of the oracle of C12: the dynamic programme MinCost equals the brute-force minimum over all
   injections, for every cost matrix up to MaxN x MaxN with entries 0..MaxC *)
EXTENDS HiveMatch
-----------------------------------------------------------------------------
CONSTANTS MaxN, MaxC
VARIABLES mat
Matrices == UNION {[1..n -> [1..m -> 0..MaxC]] : n \in 1..MaxN, m \in 1..MaxN}
Injections(n, m) == {f \in [1..n -> 1..m] : \A a, b \in 1..n : a # b => f[a] # f[b]}
Brute(d) ==
  LET e == IF Len(d) <= Len(d[1]) THEN d ELSE Transpose(d)
      costs == {LET f == g IN
                LET RECURSIVE S(_)
                    S(i) == IF i = 0 THEN 0 ELSE e[i][f[i]] + S(i - 1)
                IN S(Len(e)) : g \in Injections(Len(e), Len(e[1]))}
  IN CHOOSE x \in costs : \A y \in costs : x <= y
SelfInit == \E n \in 1..MaxN, m \in 1..MaxN : mat \in [1..n -> [1..m -> 0..MaxC]]
SelfNext == UNCHANGED mat
SelfSpec == SelfInit /\ [][SelfNext]_mat
DPEqualsBrute == MinCost(mat) = Brute(mat)

=============================================================================
