SPECIFICATION Spec
CONSTANTS
  FixOOS = TRUE
  FixCB = TRUE
  FixFull = TRUE
  FixQueuePlug = TRUE
  Vehicles <- mcVehicles
  VRank <- mcVRank
  VDef <- mcVDef
  StDef <- mcStDef
  BsDef <- mcBsDef
  RqDef <- mcRqDef
  Cells <- mcCells
  MaxE = 2
  MaxT = 3
  MoveCosts = {0, 1}
  IdleCosts = {0}
  Kinds <- mcKinds
  BogusTargets = {}
CONSTRAINT TimeBound
INVARIANT TypeOK
INVARIANT Inv_C02
INVARIANT Inv_C03
INVARIANT Inv_C10
PROPERTY Prop_C18
PROPERTY Prop_C03
CHECK_DEADLOCK FALSE
INVARIANT Inv_C07
INVARIANT Inv_C17
PROPERTY Prop_C10
