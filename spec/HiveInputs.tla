------------------------------ MODULE HiveInputs ------------------------------
(***************************************************************************)
(* C11 (request half) - the timed request input.                           *)
(*                                                                         *)
(* Transcription of                                                        *)
(*   util/iterators.py  DictReaderIterator (one row of look-ahead kept in  *)
(*                      `history` between windows),                        *)
(*   update_requests_from_file.py  read_until_stop_condition(dep < now),   *)
(*                      the "already expired on arrival" filter,           *)
(*   cancel_requests.py now >= dep + timeout                               *)
(* as one action per simulation step, for EVERY sorted request file of     *)
(* NReq rows with departures in 0..MaxDep, every step length, start time   *)
(* and timeout in the given ranges (all chosen in Init).                   *)
(* The property compares the pipeline with the declarative rule of the     *)
(* statement: a request enters in the first step that begins AFTER its     *)
(* departure time unless it has expired by then; a waiting request is      *)
(* cancelled in the first step that begins at or after departure+timeout.  *)
(* The same rule is what the trace monitor (HiveTrace!C11_Admit/Cancel)    *)
(* evaluates against the real code.                                        *)
(***************************************************************************)
EXTENDS Naturals, Integers, Sequences, FiniteSets, TLC

CONSTANTS MaxDep, MaxDt, MaxStart, MaxCancel, NReq, NSteps

VARIABLES deps, dt, start, C, k, cursor, held, waiting, admitAt, cancelAt, expired, delivered
vars == <<deps, dt, start, C, k, cursor, held, waiting, admitAt, cancelAt, expired, delivered>>

Rows == 1..NReq
Sorted(s) == \A i, j \in Rows : i < j => s[i] <= s[j]

Init ==
  /\ deps \in {s \in [Rows -> 0..MaxDep] : Sorted(s)}
  /\ dt \in 1..MaxDt /\ start \in 0..MaxStart /\ C \in 1..MaxCancel
  /\ k = 0 /\ cursor = 1 /\ held = 0
  /\ waiting = {} /\ expired = {} /\ delivered = {}
  /\ admitAt = [i \in Rows |-> -1] /\ cancelAt = [i \in Rows |-> -1]

T(j) == start + j * dt
Now == T(k)

(* DictReaderIterator.__next__ driven to exhaustion with stop condition  value < now *)
RECURSIVE Read(_, _, _)
Read(cur, h, acc) ==
  IF h # 0 THEN
       IF deps[h] < Now THEN Read(cur, 0, acc \cup {h})            \* stored row is within range: hand it out
       ELSE [rows |-> acc, cur |-> cur, held |-> h]                \* stored row still in the future: stop
  ELSE IF cur > NReq THEN [rows |-> acc, cur |-> cur, held |-> 0]  \* end of file
  ELSE IF deps[cur] < Now THEN Read(cur + 1, 0, acc \cup {cur})
  ELSE [rows |-> acc, cur |-> cur + 1, held |-> cur]               \* set the row aside for a later window

Step ==
  /\ k < NSteps
  /\ LET R == Read(cursor, held, {})
         fresh == {i \in R.rows : ~(deps[i] + C <= Now)}           \* "cannot add request that should already be cancelled"
         stale == R.rows \ fresh
         w1 == waiting \cup fresh
         gone == {i \in w1 : ~(Now < deps[i] + C)}                 \* CancelRequests
     IN /\ cursor' = R.cur /\ held' = R.held
        /\ delivered' = delivered \cup R.rows
        /\ expired' = expired \cup stale
        /\ admitAt' = [i \in Rows |-> IF i \in fresh THEN k ELSE admitAt[i]]
        /\ cancelAt' = [i \in Rows |-> IF i \in gone THEN k ELSE cancelAt[i]]
        /\ waiting' = w1 \ gone
  /\ k' = k + 1
  /\ UNCHANGED <<deps, dt, start, C>>

Spec == Init /\ [][Step]_vars

-----------------------------------------------------------------------------
Min(S) == CHOOSE x \in S : \A y \in S : x <= y
Horizon == 0..(NSteps + MaxDep + MaxCancel + 2)
AdmitStep(i)  == Min({j \in Horizon : T(j) > deps[i]})
Admitted(i)   == deps[i] + C > T(AdmitStep(i))
CancelStep(i) == Min({j \in Horizon : T(j) >= deps[i] + C})

\* after steps 0..k-1
RuleHolds ==
  \A i \in Rows :
    /\ IF AdmitStep(i) < k
       THEN IF Admitted(i) THEN admitAt[i] = AdmitStep(i) /\ i \notin expired
            ELSE admitAt[i] = -1 /\ i \in expired
       ELSE admitAt[i] = -1 /\ i \notin expired                    \* never before its time
    /\ IF Admitted(i) /\ CancelStep(i) < k THEN cancelAt[i] = CancelStep(i) /\ i \notin waiting
       ELSE cancelAt[i] = -1
    /\ (i \in waiting) = (admitAt[i] # -1 /\ cancelAt[i] = -1)

\* the look-ahead row is neither lost nor delivered twice
ReaderLosesNothing ==
  /\ delivered \cup (IF held = 0 THEN {} ELSE {held}) = 1..(cursor - 1)
  /\ held \notin delivered
=============================================================================
