"""F19 (C08) - the failing history, against the real code.
(a) add_request_safe / add_vehicle_safe / add_station_safe / add_base_safe with an id that is in use at ANOTHER cell leave the
    old cell in the location index and in the coarse search index (a stale entry: the entity is found where it is not).
(b) the same through the step pipeline: a requests file in which a rider submits request r1 again from another street corner
    while the first r1 is still waiting (UpdateRequestsFromFile -> add_request_safe).
exit 0: the indexes are exactly the inverse of the positions after every operation / step; exit 1: they are not.
Run: cd <tree> && PYTHONPATH=<tree> /venv/bin/python -W ignore /verif/findings/F19_demo.py"""
import logging, sys, tempfile, csv, os
logging.disable(logging.CRITICAL)
import h3
from nrel.hive.resources import mock_lobster as ml
from nrel.hive.state.simulation_state import simulation_state_ops as ops
from returns.result import Failure


def exact(sim):
    bad = []
    for k, coll, l, s in (("veh", sim.vehicles, sim.v_locations, sim.v_search), ("req", sim.requests, sim.r_locations, sim.r_search),
                          ("st", sim.stations, sim.s_locations, sim.s_search), ("bs", sim.bases, sim.b_locations, sim.b_search)):
        wl, ws = {}, {}
        for i, e in coll.items():
            wl.setdefault(e.geoid, set()).add(i)
            ws.setdefault(h3.h3_to_parent(e.geoid, sim.sim_h3_search_resolution), set()).add(i)
        if {g: set(v) for g, v in l.items()} != wl:
            bad.append(f"{k}: location index {dict((g, sorted(v)) for g, v in l.items())} but positions {dict((g, sorted(v)) for g, v in wl.items())}")
        if {g: set(v) for g, v in s.items()} != ws:
            bad.append(f"{k}: search index differs from the positions")
    return bad


def main():
    bad = []
    c1 = h3.geo_to_h3(39.7539, -104.9760, 15)
    c3 = h3.geo_to_h3(39.7900, -104.9000, 15)
    sim = ml.mock_sim()
    for name, mk in (("request", lambda g: ml.mock_request_from_geoids(request_id="r1", origin=g, destination=c1)),
                     ("vehicle", lambda g: ml.mock_vehicle_from_geoid(vehicle_id="v1", geoid=g)),
                     ("station", lambda g: ml.mock_station_from_geoid(station_id="s1", geoid=g)),
                     ("base", lambda g: ml.mock_base_from_geoid(base_id="b1", geoid=g))):
        s = sim
        for g in (c1, c3):
            r = getattr(ops, f"add_{name}_safe")(s, mk(g))
            if not isinstance(r, Failure):
                s = r.unwrap()
        for b in exact(s):
            bad.append(f"(a) add_{name}_safe twice under one id: {b}")
    # (b) through the step pipeline
    from nrel.hive.state.simulation_state.update.update_requests_from_file import UpdateRequestsFromFile
    from nrel.hive.model.sim_time import SimTime
    d = tempfile.mkdtemp()
    f = os.path.join(d, "requests.csv")
    la1, lo1 = h3.h3_to_geo(c1); la3, lo3 = h3.h3_to_geo(c3)
    with open(f, "w", newline="") as fh:
        w = csv.writer(fh)
        w.writerow(["request_id", "o_lat", "o_lon", "d_lat", "d_lon", "departure_time", "passengers"])
        w.writerow(["r1", la1, lo1, la3, lo3, 0, 1])
        w.writerow(["r1", la3, lo3, la1, lo1, 60, 1])
    env = ml.mock_env()
    sim = ml.mock_sim(sim_time=0, sim_timestep_duration_seconds=60)
    upd = UpdateRequestsFromFile.build(f)
    for step in range(4):
        sim = sim._replace(sim_time=SimTime.build(60 * (step + 1)))
        res, upd2 = upd.update(sim, env)
        upd = upd2 if upd2 is not None else upd
        sim = res
        for b in exact(sim):
            bad.append(f"(b) step {step}: {b}")
    for b in bad[:8]:
        print("C08 violated:", b)
    print("F19:", "violated" if bad else "holds")
    return 1 if bad else 0


sys.exit(main())
